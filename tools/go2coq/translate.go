package main

import (
	"fmt"
	"go/ast"
	"go/constant"
	"go/token"
	"go/types"
	"sort"
	"strings"
)

type unsupported string

// kinds of Go types the subset knows
type kind struct {
	k      string // "int", "bool", "string", "bigint", "error", "slice", "other"
	bits   int
	signed bool
	elem   *kind
}

func kindOf(t types.Type) kind {
	if t == nil {
		return kind{k: "other"}
	}
	if p, ok := t.(*types.Pointer); ok {
		if n, ok := p.Elem().(*types.Named); ok && n.Obj().Pkg() != nil && n.Obj().Pkg().Path() == "math/big" && n.Obj().Name() == "Int" {
			return kind{k: "bigint"}
		}
		return kind{k: "other"}
	}
	if n, ok := t.(*types.Named); ok && n.Obj().Pkg() == nil && n.Obj().Name() == "error" {
		return kind{k: "error"}
	}
	switch u := t.Underlying().(type) {
	case *types.Basic:
		switch u.Kind() {
		case types.Bool, types.UntypedBool:
			return kind{k: "bool"}
		case types.String, types.UntypedString:
			return kind{k: "string"}
		case types.Int, types.Int64:
			return kind{k: "int", bits: 64, signed: true}
		case types.Int32, types.UntypedRune:
			return kind{k: "int", bits: 32, signed: true}
		case types.Int16:
			return kind{k: "int", bits: 16, signed: true}
		case types.Int8:
			return kind{k: "int", bits: 8, signed: true}
		case types.Uint, types.Uint64, types.Uintptr:
			return kind{k: "int", bits: 64, signed: false}
		case types.Uint32:
			return kind{k: "int", bits: 32, signed: false}
		case types.Uint16:
			return kind{k: "int", bits: 16, signed: false}
		case types.Uint8:
			return kind{k: "int", bits: 8, signed: false}
		case types.UntypedInt:
			return kind{k: "int", bits: 0, signed: true}
		}
	case *types.Slice:
		e := kindOf(u.Elem())
		return kind{k: "slice", elem: &e}
	case *types.Interface:
		if t.String() == "error" {
			return kind{k: "error"}
		}
	}
	return kind{k: "other"}
}

func (k kind) coqType() string {
	switch k.k {
	case "int", "bigint":
		return "Z"
	case "bool":
		return "bool"
	case "string":
		return "string"
	case "error":
		return "result unit"
	case "slice":
		return "list " + k.elem.coqType()
	}
	panic(unsupported("type with no Gallina counterpart"))
}

func (k kind) wrap(e string) string {
	if k.k != "int" || k.bits == 0 {
		return e
	}
	s := "u"
	if k.signed {
		s = "i"
	}
	return fmt.Sprintf("(wrap_%s%d %s)", s, k.bits, e)
}

var coqReserved = map[string]bool{"as": true, "at": true, "cofix": true, "else": true, "end": true, "exists": true, "exists2": true, "fix": true, "for": true, "forall": true, "fun": true, "if": true, "IF": true, "in": true, "let": true, "match": true, "mod": true, "Prop": true, "return": true, "Set": true, "then": true, "Type": true, "using": true, "where": true, "with": true, "type": true, "val": false}

func coqIdent(s string) string {
	if coqReserved[s] {
		return s + "_"
	}
	return s
}

func coqString(s string) string {
	var b strings.Builder
	b.WriteByte('"')
	for i := 0; i < len(s); i++ {
		c := s[i]
		if c == '"' {
			b.WriteString(`""`)
		} else if c < 32 || c > 126 {
			panic(unsupported(fmt.Sprintf("non-printable byte in string constant %q", s)))
		} else {
			b.WriteByte(c)
		}
	}
	b.WriteString("\"%string")
	return b.String()
}

func zLit(v constant.Value) string {
	s := v.ExactString()
	if strings.HasPrefix(s, "-") {
		return "(" + s + ")"
	}
	return s
}

// tr translates the body of one function.
type tr struct {
	p     *pkgInfo
	deps  map[string]bool
	fn    *ast.FuncDecl
	sig   *types.Signature
	where func(ast.Node) string
}

func (t *tr) fail(n ast.Node, format string, a ...interface{}) {
	pos := t.p.fset.Position(n.Pos())
	panic(unsupported(fmt.Sprintf("%s:%d: %s", pos.Filename, pos.Line, fmt.Sprintf(format, a...))))
}

func (t *tr) typeOf(e ast.Expr) types.Type { return t.p.info.TypeOf(e) }

func methodCoqName(recv types.Type, name string) string {
	if p, ok := recv.(*types.Pointer); ok {
		recv = p.Elem()
	}
	if n, ok := recv.(*types.Named); ok {
		return n.Obj().Name() + "_" + name
	}
	return "anon_" + name
}

func (t *tr) constExpr(e ast.Expr) (string, bool) {
	tv, ok := t.p.info.Types[e]
	if !ok || tv.Value == nil {
		return "", false
	}
	switch tv.Value.Kind() {
	case constant.Int:
		return zLit(tv.Value), true
	case constant.Bool:
		if constant.BoolVal(tv.Value) {
			return "true", true
		}
		return "false", true
	case constant.String:
		return coqString(constant.StringVal(tv.Value)), true
	case constant.Float:
		if i, ok := constant.Int64Val(constant.ToInt(tv.Value)); ok && constant.ToInt(tv.Value).Kind() == constant.Int {
			return zLit(constant.MakeInt64(i)), true
		}
	}
	return "", false
}

func (t *tr) expr(e ast.Expr) string {
	// named constants keep their name (so theorems can refer to them); other constant
	// expressions are folded by the Go type checker.
	if id, ok := e.(*ast.Ident); ok {
		if c, ok := t.p.info.Uses[id].(*types.Const); ok && c.Pkg() == t.p.pkg && c.Parent() == t.p.pkg.Scope() {
			t.deps[c.Name()] = true
			return coqIdent(c.Name())
		}
	}
	if s, ok := t.constExpr(e); ok {
		return s
	}
	switch x := e.(type) {
	case *ast.ParenExpr:
		return t.expr(x.X)
	case *ast.Ident:
		switch obj := t.p.info.Uses[x].(type) {
		case *types.Var:
			return coqIdent(obj.Name())
		case *types.Nil:
			t.fail(e, "nil outside a supported position")
		}
		t.fail(e, "identifier %s", x.Name)
	case *ast.UnaryExpr:
		k := kindOf(t.typeOf(e))
		switch x.Op {
		case token.NOT:
			return "(negb " + t.expr(x.X) + ")"
		case token.SUB:
			return k.wrap("(- " + t.expr(x.X) + ")")
		case token.XOR:
			return k.wrap("(Z.lnot " + t.expr(x.X) + ")")
		case token.ADD:
			return t.expr(x.X)
		}
		t.fail(e, "unary operator %s", x.Op)
	case *ast.BinaryExpr:
		return t.binary(x)
	case *ast.CallExpr:
		return t.call(x)
	case *ast.CompositeLit:
		k := kindOf(t.typeOf(e))
		if k.k == "slice" {
			var parts []string
			for _, el := range x.Elts {
				parts = append(parts, t.expr(el))
			}
			return "[" + strings.Join(parts, "; ") + "]"
		}
	case *ast.StarExpr:
		// *val where val is *big.Int: same mathematical integer
		if kindOf(t.typeOf(x.X)).k == "bigint" {
			return t.expr(x.X)
		}
	}
	t.fail(e, "expression %T", e)
	return ""
}

func (t *tr) binary(x *ast.BinaryExpr) string {
	l, r := t.expr(x.X), t.expr(x.Y)
	ok := kindOf(t.typeOf(x.X)) // operand kind
	if ok.k == "int" && ok.bits == 0 {
		ok = kindOf(t.typeOf(x.Y))
	}
	rk := kindOf(t.typeOf(x)) // result kind
	switch x.Op {
	case token.LAND:
		return "(" + l + " && " + r + ")"
	case token.LOR:
		return "(" + l + " || " + r + ")"
	case token.EQL, token.NEQ:
		var s string
		switch ok.k {
		case "int", "bigint":
			s = "(Z.eqb " + l + " " + r + ")"
		case "string":
			s = "(String.eqb " + l + " " + r + ")"
		case "bool":
			s = "(Bool.eqb " + l + " " + r + ")"
		default:
			t.fail(x, "equality on %s", ok.k)
		}
		if x.Op == token.NEQ {
			return "(negb " + s + ")"
		}
		return s
	case token.LSS, token.LEQ, token.GTR, token.GEQ:
		if ok.k != "int" {
			t.fail(x, "ordering on %s", ok.k)
		}
		op := map[token.Token]string{token.LSS: "Z.ltb", token.LEQ: "Z.leb", token.GTR: "Z.gtb", token.GEQ: "Z.geb"}[x.Op]
		return "(" + op + " " + l + " " + r + ")"
	}
	if rk.k != "int" {
		t.fail(x, "arithmetic on %s", rk.k)
	}
	switch x.Op {
	case token.ADD:
		return rk.wrap("(" + l + " + " + r + ")")
	case token.SUB:
		return rk.wrap("(" + l + " - " + r + ")")
	case token.MUL:
		return rk.wrap("(" + l + " * " + r + ")")
	case token.QUO:
		return rk.wrap("(go_quot " + l + " " + r + ")")
	case token.REM:
		return rk.wrap("(go_rem " + l + " " + r + ")")
	case token.AND:
		return "(Z.land " + l + " " + r + ")"
	case token.OR:
		return "(Z.lor " + l + " " + r + ")"
	case token.XOR:
		return "(Z.lxor " + l + " " + r + ")"
	case token.AND_NOT:
		return "(Z.ldiff " + l + " " + r + ")"
	case token.SHL:
		return rk.wrap("(Z.shiftl " + l + " " + r + ")")
	case token.SHR:
		return "(Z.shiftr " + l + " " + r + ")"
	}
	t.fail(x, "binary operator %s", x.Op)
	return ""
}

func (t *tr) args(xs []ast.Expr) string {
	var b strings.Builder
	for _, a := range xs {
		b.WriteString(" ")
		s := t.expr(a)
		if strings.ContainsAny(s, " ") && !strings.HasPrefix(s, "(") && !strings.HasPrefix(s, "[") && !strings.HasPrefix(s, "\"") {
			s = "(" + s + ")"
		}
		b.WriteString(s)
	}
	return b.String()
}

func (t *tr) call(x *ast.CallExpr) string {
	// conversion T(e)
	if tv, ok := t.p.info.Types[x.Fun]; ok && tv.IsType() {
		if len(x.Args) != 1 {
			t.fail(x, "conversion arity")
		}
		to := kindOf(tv.Type)
		from := kindOf(t.typeOf(x.Args[0]))
		a := t.expr(x.Args[0])
		switch {
		case to.k == "int" && (from.k == "int"):
			return to.wrap(a)
		case to.k == "string" && from.k == "string":
			return a
		case to.k == "bool" && from.k == "bool":
			return a
		}
		t.fail(x, "conversion %s -> %s", from.k, to.k)
	}
	switch f := x.Fun.(type) {
	case *ast.Ident:
		switch obj := t.p.info.Uses[f].(type) {
		case *types.Func:
			if obj.Pkg() == t.p.pkg {
				t.deps[obj.Name()] = true
				return "(" + coqIdent(obj.Name()) + t.args(x.Args) + ")"
			}
		case *types.Builtin:
			t.fail(x, "builtin %s", obj.Name())
		}
	case *ast.SelectorExpr:
		if sel, ok := t.p.info.Selections[f]; ok && sel.Kind() == types.MethodVal {
			recvK := kindOf(sel.Recv())
			m := sel.Obj().(*types.Func)
			if recvK.k == "bigint" {
				switch m.Name() {
				case "IsInt64", "IsUint64", "Int64", "Uint64":
					return "(big_" + m.Name() + " " + t.expr(f.X) + ")"
				}
				t.fail(x, "big.Int method %s", m.Name())
			}
			if m.Pkg() == t.p.pkg {
				name := methodCoqName(sel.Recv(), m.Name())
				t.deps[name] = true
				return "(" + name + " " + t.expr(f.X) + t.args(x.Args) + ")"
			}
		}
		// package-qualified function
		if id, ok := f.X.(*ast.Ident); ok {
			if pn, ok := t.p.info.Uses[id].(*types.PkgName); ok {
				full := pn.Imported().Path() + "." + f.Sel.Name
				switch full {
				case "fmt.Sprintf":
					if s, ok := t.constExpr(x.Args[0]); ok {
						return "(sprintf " + s + ")"
					}
				}
				t.fail(x, "call to %s", full)
			}
		}
	}
	t.fail(x, "call")
	return ""
}

// terminates reports whether control cannot fall off the end of the statement list.
func terminates(stmts []ast.Stmt) bool {
	if len(stmts) == 0 {
		return false
	}
	switch s := stmts[len(stmts)-1].(type) {
	case *ast.ReturnStmt:
		return true
	case *ast.BlockStmt:
		return terminates(s.List)
	case *ast.IfStmt:
		if s.Else == nil {
			return false
		}
		var els []ast.Stmt
		switch e := s.Else.(type) {
		case *ast.BlockStmt:
			els = e.List
		default:
			els = []ast.Stmt{e}
		}
		return terminates(s.Body.List) && terminates(els)
	case *ast.SwitchStmt:
		hasDefault := false
		for _, c := range s.Body.List {
			cc := c.(*ast.CaseClause)
			if cc.List == nil {
				hasDefault = true
			}
			if !terminates(cc.Body) {
				return false
			}
		}
		return hasDefault
	}
	return false
}

// assigned collects variables (declared outside) that a statement list assigns.
func (t *tr) assigned(stmts []ast.Stmt, out map[string]bool) {
	for _, s := range stmts {
		switch x := s.(type) {
		case *ast.AssignStmt:
			if x.Tok == token.ASSIGN || x.Tok != token.DEFINE {
				for _, l := range x.Lhs {
					if id, ok := l.(*ast.Ident); ok {
						out[id.Name] = true
					}
				}
			}
		case *ast.IncDecStmt:
			if id, ok := x.X.(*ast.Ident); ok {
				out[id.Name] = true
			}
		case *ast.BlockStmt:
			t.assigned(x.List, out)
		case *ast.IfStmt:
			t.assigned(x.Body.List, out)
			if x.Else != nil {
				t.assigned([]ast.Stmt{x.Else}, out)
			}
		case *ast.SwitchStmt:
			for _, c := range x.Body.List {
				t.assigned(c.(*ast.CaseClause).Body, out)
			}
		}
	}
}

func (t *tr) ret(r *ast.ReturnStmt) string {
	res := t.sig.Results()
	if len(r.Results) == 0 {
		t.fail(r, "bare return")
	}
	// return f(x) forwarding a multi-value call
	if len(r.Results) == 1 && res.Len() > 1 {
		return t.expr(r.Results[0])
	}
	if res.Len() != len(r.Results) {
		t.fail(r, "return arity")
	}
	if res.Len() == 1 {
		if kindOf(res.At(0).Type()).k == "error" {
			if isNil(r.Results[0]) {
				return "(Ok tt)"
			}
			return "Err"
		}
		return t.expr(r.Results[0])
	}
	last := res.At(res.Len() - 1)
	if kindOf(last.Type()).k == "error" {
		if !isNil(r.Results[len(r.Results)-1]) {
			return "Err"
		}
		var parts []string
		for _, e := range r.Results[:len(r.Results)-1] {
			parts = append(parts, t.expr(e))
		}
		if len(parts) == 1 {
			return "(Ok " + parts[0] + ")"
		}
		return "(Ok (" + strings.Join(parts, ", ") + "))"
	}
	var parts []string
	for _, e := range r.Results {
		parts = append(parts, t.expr(e))
	}
	return "(" + strings.Join(parts, ", ") + ")"
}

func isNil(e ast.Expr) bool {
	id, ok := e.(*ast.Ident)
	return ok && id.Name == "nil"
}

func tuple(vars []string) string {
	if len(vars) == 1 {
		return coqIdent(vars[0])
	}
	var v []string
	for _, x := range vars {
		v = append(v, coqIdent(x))
	}
	return "(" + strings.Join(v, ", ") + ")"
}

func letTuple(vars []string, rhs, body string) string {
	if len(vars) == 1 {
		return "(let " + coqIdent(vars[0]) + " := " + rhs + " in\n  " + body + ")"
	}
	return "(let '" + tuple(vars) + " := " + rhs + " in\n  " + body + ")"
}

// block translates stmts followed by rest (nil when nothing may follow).
func (t *tr) block(stmts []ast.Stmt, rest func() string) string {
	if len(stmts) == 0 {
		if rest == nil {
			panic(unsupported("control falls off the end of " + t.fn.Name.Name))
		}
		return rest()
	}
	s := stmts[0]
	next := func() string { return t.block(stmts[1:], rest) }
	switch x := s.(type) {
	case *ast.ReturnStmt:
		return t.ret(x)
	case *ast.BlockStmt:
		return t.block(append(append([]ast.Stmt{}, x.List...), stmts[1:]...), rest)
	case *ast.AssignStmt:
		if len(x.Lhs) == 1 && len(x.Rhs) == 1 && (x.Tok == token.DEFINE || x.Tok == token.ASSIGN) {
			id, ok := x.Lhs[0].(*ast.Ident)
			if !ok {
				t.fail(x, "assignment target")
			}
			return "(let " + coqIdent(id.Name) + " := " + t.expr(x.Rhs[0]) + " in\n  " + next() + ")"
		}
		t.fail(x, "assignment form")
	case *ast.IncDecStmt:
		id, ok := x.X.(*ast.Ident)
		if !ok {
			t.fail(x, "inc/dec target")
		}
		k := kindOf(t.typeOf(x.X))
		op := " + 1"
		if x.Tok == token.DEC {
			op = " - 1"
		}
		return "(let " + coqIdent(id.Name) + " := " + k.wrap("("+coqIdent(id.Name)+op+")") + " in\n  " + next() + ")"
	case *ast.IfStmt:
		if x.Init != nil {
			t.fail(x, "if with init statement")
		}
		c := t.expr(x.Cond)
		var els []ast.Stmt
		if x.Else != nil {
			switch e := x.Else.(type) {
			case *ast.BlockStmt:
				els = e.List
			default:
				els = []ast.Stmt{e}
			}
		}
		tT, tE := terminates(x.Body.List), terminates(els)
		switch {
		case tT && tE:
			return "(if " + c + " then " + t.block(x.Body.List, nil) + "\n  else " + t.block(els, nil) + ")"
		case tT:
			return "(if " + c + " then " + t.block(x.Body.List, nil) + "\n  else " + t.block(els, next) + ")"
		case tE:
			return "(if " + c + " then " + t.block(x.Body.List, next) + "\n  else " + t.block(els, nil) + ")"
		default:
			set := map[string]bool{}
			t.assigned(x.Body.List, set)
			t.assigned(els, set)
			var vars []string
			for v := range set {
				vars = append(vars, v)
			}
			sort.Strings(vars)
			if len(vars) == 0 {
				return next()
			}
			tup := func() string { return tuple(vars) }
			rhs := "(if " + c + " then " + t.block(x.Body.List, tup) + " else " + t.block(els, tup) + ")"
			return letTuple(vars, rhs, next())
		}
	case *ast.SwitchStmt:
		if x.Init != nil || x.Tag == nil {
			t.fail(x, "switch form")
		}
		tag := t.expr(x.Tag)
		tk := kindOf(t.typeOf(x.Tag))
		eq := func(e ast.Expr) string {
			switch tk.k {
			case "int":
				return "(Z.eqb " + tag + " " + t.expr(e) + ")"
			case "string":
				return "(String.eqb " + tag + " " + t.expr(e) + ")"
			}
			t.fail(x, "switch on %s", tk.k)
			return ""
		}
		var def *ast.CaseClause
		var clauses []*ast.CaseClause
		for _, c := range x.Body.List {
			cc := c.(*ast.CaseClause)
			if cc.List == nil {
				def = cc
			} else {
				clauses = append(clauses, cc)
			}
		}
		restOrNil := func(body []ast.Stmt) func() string {
			if terminates(body) {
				return nil
			}
			if rest == nil && len(stmts) == 1 {
				return nil
			}
			return next
		}
		var out strings.Builder
		closeN := 0
		for _, cc := range clauses {
			var conds []string
			for _, e := range cc.List {
				conds = append(conds, eq(e))
			}
			out.WriteString("(if " + strings.Join(conds, " || ") + " then " + t.block(cc.Body, restOrNil(cc.Body)) + "\n  else ")
			closeN++
		}
		if def != nil {
			out.WriteString(t.block(def.Body, restOrNil(def.Body)))
		} else {
			out.WriteString(next())
		}
		out.WriteString(strings.Repeat(")", closeN))
		return out.String()
	case *ast.RangeStmt:
		// for _, s := range <list> { if <cond> { return <e> } }  ; rest
		if x.Key != nil {
			if id, ok := x.Key.(*ast.Ident); !ok || id.Name != "_" {
				t.fail(x, "range with index")
			}
		}
		v, ok := x.Value.(*ast.Ident)
		if !ok || len(x.Body.List) != 1 {
			t.fail(x, "range form")
		}
		ifs, ok := x.Body.List[0].(*ast.IfStmt)
		if !ok || ifs.Else != nil || ifs.Init != nil || len(ifs.Body.List) != 1 {
			t.fail(x, "range body form")
		}
		r, ok := ifs.Body.List[0].(*ast.ReturnStmt)
		if !ok {
			t.fail(x, "range body form")
		}
		return "(if existsb (fun " + coqIdent(v.Name) + " => " + t.expr(ifs.Cond) + ") " + t.expr(x.X) + " then " + t.ret(r) + "\n  else " + next() + ")"
	}
	t.fail(s, "statement %T", s)
	return ""
}

type coqDef struct {
	name string
	text string
	deps map[string]bool
	node ast.Node
	goNm string
}

func (t *tr) resultType() string {
	res := t.sig.Results()
	if res.Len() == 0 {
		panic(unsupported("function without result"))
	}
	if res.Len() == 1 {
		return kindOf(res.At(0).Type()).coqType()
	}
	last := kindOf(res.At(res.Len() - 1).Type())
	var parts []string
	n := res.Len()
	if last.k == "error" {
		n--
	}
	for i := 0; i < n; i++ {
		parts = append(parts, kindOf(res.At(i).Type()).coqType())
	}
	inner := strings.Join(parts, " * ")
	if last.k == "error" {
		if len(parts) > 1 {
			inner = "(" + inner + ")"
		}
		return "result " + inner
	}
	return "(" + inner + ")"
}

// translateFunc turns one Go function or method into a Gallina definition.
func translateFunc(p *pkgInfo, fd *ast.FuncDecl) coqDef {
	obj := p.info.Defs[fd.Name].(*types.Func)
	sig := obj.Type().(*types.Signature)
	t := &tr{p: p, deps: map[string]bool{}, fn: fd, sig: sig}
	name := coqIdent(fd.Name.Name)
	var params []string
	if sig.Recv() != nil {
		name = methodCoqName(sig.Recv().Type(), fd.Name.Name)
		rn := sig.Recv().Name()
		if rn == "" || rn == "_" {
			rn = "recv_"
		}
		params = append(params, "("+coqIdent(rn)+" : "+kindOf(sig.Recv().Type()).coqType()+")")
	}
	for i := 0; i < sig.Params().Len(); i++ {
		v := sig.Params().At(i)
		pn := v.Name()
		if pn == "" || pn == "_" {
			pn = fmt.Sprintf("arg%d_", i)
		}
		params = append(params, "("+coqIdent(pn)+" : "+kindOf(v.Type()).coqType()+")")
	}
	body := t.block(fd.Body.List, nil)
	text := "Definition " + name + " " + strings.Join(params, " ") + " : " + t.resultType() + " :=\n  " + body + "."
	if len(params) == 0 {
		text = "Definition " + name + " : " + t.resultType() + " :=\n  " + body + "."
	}
	return coqDef{name: name, text: text, deps: t.deps, node: fd, goNm: fd.Name.Name}
}

// topo orders definitions so that each follows what it uses.
func topo(defs []coqDef) []coqDef {
	idx := map[string]int{}
	for i, d := range defs {
		idx[d.name] = i
	}
	state := make([]int, len(defs))
	var out []coqDef
	var visit func(i int)
	visit = func(i int) {
		if state[i] != 0 {
			if state[i] == 1 {
				panic(unsupported("recursive definition " + defs[i].name))
			}
			return
		}
		state[i] = 1
		var ds []string
		for d := range defs[i].deps {
			ds = append(ds, d)
		}
		sort.Strings(ds)
		for _, d := range ds {
			if j, ok := idx[d]; ok {
				visit(j)
			}
		}
		state[i] = 2
		out = append(out, defs[i])
	}
	for i := range defs {
		visit(i)
	}
	return out
}
