// go2coq regenerates Gallina definitions from the current Go source of /repo.
//
// It type-checks a package with go/types and translates a fixed, small subset of Go
// (pure functions over fixed-width integers, booleans and strings) into Gallina, making
// every fixed-width operation an explicit wrap (see coq/base/GoInt.v).  Anything outside
// the subset is a hard error for the unit that needs it.
package main

import (
	"crypto/sha256"
	"encoding/json"
	"flag"
	"fmt"
	"go/ast"
	"go/importer"
	"go/parser"
	"go/token"
	"go/types"
	"os"
	"path/filepath"
	"sort"
	"strings"
)

type pkgInfo struct {
	fset  *token.FileSet
	files map[string]*ast.File // base name -> file
	info  *types.Info
	pkg   *types.Package
	dir   string
	src   map[string][]byte
}

func loadPkg(repo, dir string) (*pkgInfo, error) {
	if err := os.Chdir(repo); err != nil {
		return nil, err
	}
	fset := token.NewFileSet()
	pkgs, err := parser.ParseDir(fset, filepath.Join(repo, dir), func(fi os.FileInfo) bool {
		return !strings.HasSuffix(fi.Name(), "_test.go") && fi.Name() != "verif_hooks.go"
	}, parser.ParseComments)
	if err != nil {
		return nil, err
	}
	for name, p := range pkgs {
		pi := &pkgInfo{fset: fset, files: map[string]*ast.File{}, dir: dir, src: map[string][]byte{}}
		var files []*ast.File
		var names []string
		for fn := range p.Files {
			names = append(names, fn)
		}
		sort.Strings(names)
		for _, fn := range names {
			f := p.Files[fn]
			files = append(files, f)
			pi.files[filepath.Base(fn)] = f
			b, _ := os.ReadFile(fn)
			pi.src[filepath.Base(fn)] = b
		}
		var firstErr error
		conf := types.Config{Importer: importer.ForCompiler(fset, "source", nil), Error: func(e error) {
			if firstErr == nil {
				firstErr = e
			}
		}}
		pi.info = &types.Info{
			Types:      map[ast.Expr]types.TypeAndValue{},
			Defs:       map[*ast.Ident]types.Object{},
			Uses:       map[*ast.Ident]types.Object{},
			Selections: map[*ast.SelectorExpr]*types.Selection{},
			Implicits:  map[ast.Node]types.Object{},
		}
		pi.pkg, _ = conf.Check(name, fset, files, pi.info)
		if firstErr != nil {
			return nil, fmt.Errorf("type-check %s: %v", dir, firstErr)
		}
		return pi, nil
	}
	return nil, fmt.Errorf("no package in %s", dir)
}

type manifestEntry struct {
	Unit   string `json:"unit"`
	Go     string `json:"go"`
	Where  string `json:"where"`
	Sha256 string `json:"sha256"`
	Coq    string `json:"coq"`
}

var manifest []manifestEntry

func (p *pkgInfo) srcOf(n ast.Node) string {
	pos := p.fset.Position(n.Pos())
	end := p.fset.Position(n.End())
	b := p.src[filepath.Base(pos.Filename)]
	if b == nil || end.Offset > len(b) {
		return ""
	}
	return string(b[pos.Offset:end.Offset])
}

func (p *pkgInfo) record(unit, goName, coqName string, n ast.Node) {
	pos := p.fset.Position(n.Pos())
	h := sha256.Sum256([]byte(p.srcOf(n)))
	manifest = append(manifest, manifestEntry{unit, goName, fmt.Sprintf("%s/%s:%d", p.dir, filepath.Base(pos.Filename), pos.Line), fmt.Sprintf("%x", h[:8]), coqName})
}

// writeIfChanged writes content to path only when it differs, so untouched trees rebuild nothing.
func writeIfChanged(path, content string) error {
	old, err := os.ReadFile(path)
	if err == nil && string(old) == content {
		return nil
	}
	return os.WriteFile(path, []byte(content), 0o644)
}

func main() {
	repo := flag.String("repo", "/repo", "repository root")
	out := flag.String("out", "", "output directory for *_gen.v")
	units := flag.String("units", "all", "comma separated units")
	flag.Parse()
	if *out == "" {
		fmt.Fprintln(os.Stderr, "need -out")
		os.Exit(2)
	}
	absOut, _ := filepath.Abs(*out)
	want := map[string]bool{}
	for _, u := range strings.Split(*units, ",") {
		want[u] = true
	}
	failed := false
	for _, u := range allUnits {
		if !want["all"] && !want[u.name] {
			continue
		}
		text, err := runUnit(u, *repo)
		target := filepath.Join(absOut, u.file)
		if err != nil {
			failed = true
			fmt.Fprintf(os.Stderr, "go2coq: unit %s FAILED: %v\n", u.name, err)
			// leave a file that cannot compile so that no stale definition is ever checked
			text = fmt.Sprintf("(* go2coq: unit %s could not be translated: %s *)\nTranslation failed.\n", u.name, strings.ReplaceAll(err.Error(), "*)", "* )"))
		}
		if err := writeIfChanged(target, text); err != nil {
			fmt.Fprintln(os.Stderr, err)
			os.Exit(2)
		}
		fmt.Printf("go2coq: unit %s -> %s (%d bytes)\n", u.name, target, len(text))
	}
	for name, content := range extraFiles {
		_ = writeIfChanged(filepath.Join(absOut, name), content)
	}
	mb, _ := json.MarshalIndent(manifest, "", " ")
	_ = writeIfChanged(filepath.Join(absOut, "manifest.json"), string(mb)+"\n")
	if failed {
		os.Exit(1)
	}
}

type unit struct {
	name string
	file string
	gen  func(repo string) (string, error)
}

var allUnits []unit

// extraFiles are side outputs (JSON tables for the harness), written next to the .v files.
var extraFiles = map[string]string{}

func runUnit(u unit, repo string) (text string, err error) {
	defer func() {
		if r := recover(); r != nil {
			if ue, ok := r.(unsupported); ok {
				err = fmt.Errorf("%s", string(ue))
				return
			}
			panic(r)
		}
	}()
	return u.gen(repo)
}
