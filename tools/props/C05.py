"""C05 - header-only and raw-body operations agree with the full codec."""
import vlib
import framecommon as fc

MANIFEST = {
    "text": ("Theorems over the Gallina mirror of frame/{codec,convert,decode,encode}.go: for every valid uncompressed frame, DecodeRawFrame + "
             "ConvertFromRawFrame equals DecodeFrame, ConvertToRawFrame + EncodeRawFrame emits the bytes of EncodeFrame, EncodeHeader ++ EncodeBody "
             "is EncodeFrame, and DecodeRawBody / DiscardBody (plain and seekable source) consume exactly the declared body length. The re-encode "
             "clause is proved on the encoder's range and REFUTED for arbitrary decodable input on the faithful model (the decoders accept inputs "
             "the encoders refuse): those asymmetries are known findings matched by class. All seven API paths and the re-encode clause are "
             "evaluated on the implementation for generated valid frames and for successfully decodable mutated inputs."),
    "technique": "Rocq proof (corollaries of the frame round-trip lemmas) + model/code correspondence + implementation-side path agreement",
    "design_ref": "3 C05",
    "note": "Hand-written model; the compressed raw paths are exercised on the implementation only.",
}

PATH_CHECKS = ("raw_agree", "convert_to_raw_agree", "header_body_split", "header_body_decode", "raw_body_consumed",
               "raw_body_consumed_plain", "discard_consumed", "discard_seek_consumed", "discard_unseekable_consumed", "reencode_equal", "chunked_raw")


def check(run):
    broken, findings = [], []
    fails, pr = fc.frame_prelude(run, "C05", broken)
    n = 300 if run.tier == "quick" else 20000
    m = 4000 if run.tier == "quick" else 60000
    recs, mal = [], []
    if "harness" not in fails:
        recs, err = fc.run_harness(run, "gen", n, ["thorough"] if run.tier == "thorough" else [])
        if err:
            broken.append(err)
        mal, err = fc.run_harness(run, "malformed", m, ["thorough"] if run.tier == "thorough" else [])
        if err:
            broken.append(err)
    valid = [r for r in recs if r.get("valid", True) and r.get("encode") == "ok"]
    for r in valid:
        ch = r.get("checks") or {}
        bad = [k for k in PATH_CHECKS if ch.get(k) is False]
        if bad:
            f = fc.slim(r)
            f.update({"failed": bad, "what": "frame %s v%s %s flags=%s: %s %s" % (r.get("kind"), r.get("version"), r.get("compression"),
                                                                                 r.get("flags"), bad, r.get("why", ""))})
            if fc.is_known_lz4(r):
                f["class"] = fc.LZ4_CLASS
                f["algorithm"] = "lz4"
            findings.append(f)
    # re-encode clause on decodable mutated inputs
    decodable = [r for r in mal if r.get("entry") == "frame" and r.get("outcome") == "ok"]
    classes = {}
    for r in decodable:
        if r.get("reencode") == "ok" and r.get("reencode_equal") is True:
            continue
        if r.get("reencode") in (None, "n/a"):
            continue
        cls = r.get("reencode_class", "unclassified")
        classes[cls] = classes.get(cls, 0) + 1
        findings.append({"id": r["id"], "kind_of_failure": "reencode", "reencode_class": cls, "version": r.get("version"), "input": r.get("input"),
                         "origin": r.get("origin"), "reencode": r.get("reencode"), "reencode_error": r.get("reencode_error"),
                         "what": "decodable input (%s) re-encodes to %s: %s" % (r.get("origin"), r.get("reencode"), r.get("reencode_error"))})
    # model: raw frame decoding of the Go bytes
    sel, skipped = fc.select_records([r for r in valid if r.get("compression") == "none" or not (r.get("flags", 0) & 1)], run.tier)
    cases = []
    for r in sel[:1500]:
        hdr = 8 if r["version"] == 2 else 9
        cases.append((r["id"] + ":raw", "match decode_raw_frame %s with DOk rf rest => list_beq Z Z.eqb (olist (rf_Body rf)) %s && Z.eqb (h_BodyLength (rf_Header rf)) %d "
                      "&& match rest with [] => true | _ => false end | _ => false end" % (fc.hxs(r["bytes"]), fc.hxs(r["bytes"][2 * hdr:]), r["body_len_emitted"])))
    if cases and fc.can_eval(pr):
        mism, cerr = fc.eval_cases("Cases_C05", fc.FRAME_PRELUDE, cases)
        if cerr:
            broken.append(cerr)
        elif mism:
            broken.append("correspondence: model raw-frame decoding disagrees with the implementation's bytes on %s" % mism[:12])
    c = run.coverage
    c["evaluations"] = len(valid) + len(decodable) + len(cases)
    c["traces_validated_against_impl"] = len(cases)
    c["distinct_nontrivial"] = len({r.get("bytes") for r in valid if len(r.get("bytes", "")) > 20}) + len({r.get("input") for r in decodable})
    c["rule"] = ("valid frames from the C01 generator through DecodeRawFrame+ConvertFromRawFrame, ConvertToRawFrame+EncodeRawFrame, EncodeHeader+EncodeBody, "
                 "DecodeHeader+DecodeBody / DecodeRawBody / DiscardBody (seekable and non-seekable) and re-encoding; plus every successfully decodable input of "
                 "the malformed stream (field mutations, truncations, bit flips, header mutations) re-encoded and decoded again; non-trivial = distinct byte strings")
    c["samples"] = [{"id": r["id"], "origin": r.get("origin"), "reencode": r.get("reencode"), "class": r.get("reencode_class")} for r in decodable[:6]]
    c["reencode_classes_seen"] = classes
    c["decodable_mutants"] = len(decodable)
    fc.verdict(run, "C05", findings, broken, "harness-frame one frame <version> none <input hex> replays a malformed record; gen records by id and seed")
