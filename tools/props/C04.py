"""C04 - decoders never panic, fault or hang on arbitrary input bytes."""
import os
import sys

import vlib
import framecommon as fc

MANIFEST = {
    "text": ("Theorems over the Gallina models of every decoding entry point, in which a Go panic (make with a negative length, nil dereference, "
             "index out of range) is the outcome DPanic placed exactly where the Go code can panic and unbounded recursion is DFuel: for EVERY byte "
             "string, every version and any decompressor function, frame / raw frame / header / message-body / type-descriptor / primitive-notation "
             "decoders, the segment decoder and the CQL value decoders return a value or an error (never DPanic, never DFuel); nesting fuel = input "
             "length suffices. Tied to the code by structure-aware malformed streams (every length/count field forced to -1, -2, 0, boundary and "
             "huge values; truncation at every offset; bit flips; header mutations; splices; random bytes) run through the real decoders in "
             "recover()-guarded workers, whose outcome class is compared with the model's. PARTIAL: the bodies of lz4.UncompressBlock and "
             "snappy.Decode (third party) and the Go runtime's stack and memory limits are outside the model; allocations proportional to a wire "
             "count (outcome 'oom' under the harness's address-space limit) are reported as observations, not panics."),
    "technique": "Rocq proof (totality/no-panic lemmas per decoder, fuel adequacy) + outcome-class correspondence on malformed streams",
    "design_ref": "3 C04",
    "note": "Hand-written models; third-party decompressor internals and OOM behaviour excluded (named in the evidence).",
    }


def check(run):
    broken, findings = [], []
    fails, pr = fc.frame_prelude(run, "C04", broken)
    m = 6000 if run.tier == "quick" else 120000
    mal = []
    if "harness" not in fails:
        mal, err = fc.run_harness(run, "malformed", m, ["thorough"] if run.tier == "thorough" else [], timeout=3000)
        if err:
            broken.append(err)
    outcomes = {}
    replayed_timeouts = []
    for r in mal:
        outcomes[(r.get("entry"), r.get("outcome"))] = outcomes.get((r.get("entry"), r.get("outcome")), 0) + 1
        if r.get("outcome") == "timeout":
            # a wall-clock timeout inside a loaded parallel run says little: replay the case alone (up to three times);
            # it is reported only if it never completes alone either
            import json as _json
            again = "timeout"
            for _ in range(3):
                rc1, out1, _e = vlib.harness("frame", ["one", r.get("entry", "frame"), str(r.get("version")), r.get("compression", "none"), r.get("input", "")] +
                                             ([r["header"]] if r.get("header") else []), run.seed, timeout=120)
                try:
                    again = _json.loads([l for l in out1.split("\n") if l.strip().startswith("{")][-1]).get("outcome", "timeout")
                except Exception:
                    again = "timeout"
                if again != "timeout":
                    break
            replayed_timeouts.append({"id": r["id"], "origin": r.get("origin"), "alone": again})
            if again != "timeout":
                r = dict(r, outcome=again)
        if r.get("outcome") in ("panic", "timeout"):
            findings.append({"id": r["id"], "entry": r.get("entry"), "outcome": r.get("outcome"), "version": r.get("version"),
                             "compression": r.get("compression"), "input": r.get("input"), "origin": r.get("origin"),
                             "what": "%s decoder %s on %s-byte input (%s)" % (r.get("entry"), r.get("outcome"), len(r.get("input", "")) // 2, r.get("origin"))})
    # frame entry, no compression: outcome class and decoded structure against the model
    cases = []
    sel = [r for r in mal if r.get("entry") == "frame" and r.get("compression", "none") == "none" and r.get("outcome") in ("ok", "err")
           and len(r.get("input", "")) <= 12000]
    if run.tier == "quick":
        sel = sel[:12000]
    for r in sel:
        if r["outcome"] == "ok" and r.get("decoded") and len(r["decoded"]) <= 20000:
            cases.append((r["id"], "match decode_frame the_msg_codec None %s with DOk f _ => Frame_beq (canon_frame f) (canon_frame %s) | _ => false end" % (
                fc.hxs(r["input"]), r["decoded"])))
        else:
            cases.append((r["id"], "Z.eqb (dec_class None %s) %d" % (fc.hxs(r["input"]), 0 if r["outcome"] == "ok" else 1)))
    if cases and fc.can_eval(pr):
        mism, cerr = fc.eval_cases("Cases_C04", fc.FRAME_PRELUDE, cases)
        if cerr:
            broken.append(cerr)
        elif mism:
            broken.append("correspondence: outcome class / decoded frame of the model differs from the implementation on malformed inputs %s" % mism[:12])
            byid = {r["id"]: r for r in sel}
            for cid in mism[:6]:
                r = byid.get(cid, {})
                findings.append({"model_only": True, "id": cid, "input": r.get("input"), "origin": r.get("origin"), "outcome": r.get("outcome"),
                                 "what": "model/code outcome mismatch on malformed input"})
    total_cases = len(cases)
    # growth rate: allocation volume of the frame decoder on input families of size n and 4n (a decoder that is quadratic in the
    # input length "returns" but needs hours on a 1 MiB input); measured, deterministic, no wall-clock threshold
    growth = []
    if "harness" not in fails:
        growth, gerr = fc.run_harness(run, "growth", 0)
        if gerr:
            broken.append(gerr)
        elif not growth:
            broken.append("harness-frame growth printed no record")
    for g in growth:
        if g.get("ratio", 0) > 2.0 * g.get("size_ratio", 4.0):
            findings.append({"id": g["id"], "entry": "frame", "outcome": "superlinear", "family": g.get("family"),
                             "alloc_small": g.get("alloc_small"), "alloc_big": g.get("alloc_big"), "ratio": round(g.get("ratio", 0), 1),
                             "what": "frame decoder allocates %.1f times more on a %.1f times longer input of family '%s' (%d -> %d bytes allocated for %d -> %d input bytes): "
                                     "superlinear in the input length" % (g.get("ratio", 0), g.get("size_ratio", 0), g.get("family"), g.get("alloc_small", 0),
                                                                         g.get("alloc_big", 0), g.get("bytes_small", 0), g.get("bytes_big", 0))})
    # segments and decompressors (seg-builder's harness and model), CQL value decoders (cql-builder's)
    seg_n, cql_n = 0, 0
    try:
        sys.path.insert(0, os.path.join(vlib.ROOT, "tools", "lib"))
        import seglib
        with vlib.Lock():
            okb, log = vlib.build_harness("seg")
            vlib.coq_make(["model/SegGen.vo"])
        if not okb:
            broken.append("harness seg does not build: " + log[-300:])
        else:
            rc, out, err = vlib.harness("seg", ["malformed", "120" if run.tier == "quick" else "1500"], run.seed, timeout=1800)
            import json
            srecs = [json.loads(l) for l in out.split("\n") if l.strip().startswith("{")]
            seg_n = len(srecs)
            for r in srecs:
                outcomes[(r.get("entry"), r.get("outcome"))] = outcomes.get((r.get("entry"), r.get("outcome")), 0) + 1
                if r.get("outcome") == "timeout" and r.get("entry") and r.get("input") is not None:
                    # a wall-clock timeout (5 s in-process) inside a loaded run says little: replay the case alone in a child
                    # process (up to twice, 120 s each) and judge what that returns; only a case that still does not finish is a hang
                    again = "timeout"
                    for _ in range(2):
                        rc1, out1, _e1 = vlib.harness("seg", ["malformed-child", r["entry"], r["input"]], run.seed, timeout=120)
                        w = out1.strip().split("\n")[-1].strip() if out1.strip() else ""
                        if rc1 != 124 and (w in ("ok", "err", "panic") or "out of memory" in _e1 or "cannot allocate" in _e1):
                            again = w if w in ("ok", "err", "panic") else "oom"
                            break
                    replayed_timeouts.append({"id": "seg-%s" % r.get("id"), "origin": r.get("entry"), "alone": again})
                    outcomes[(r.get("entry"), "timeout->" + again)] = outcomes.get((r.get("entry"), "timeout->" + again), 0) + 1
                    r = dict(r, outcome=again)
                if r.get("outcome") in ("panic", "timeout"):
                    findings.append({"id": "seg-%s" % r.get("id"), "entry": r.get("entry"), "outcome": r.get("outcome"), "input": r.get("input"),
                                     "what": "%s decoder %s (%s)" % (r.get("entry"), r.get("outcome"), r.get("what"))})
            ok, bad, elog = seglib.malformed_segment_mismatches(srecs)
            total_cases += len(seglib.malformed_segment_terms(srecs))
            if not ok:
                broken.append("segment malformed correspondence does not evaluate: " + str(elog)[-300:])
            elif bad:
                broken.append("correspondence: segment decoder model disagrees with the implementation on malformed inputs %s" % bad[:10])
    except Exception as e:  # fail closed
        broken.append("segment part of C04 failed: %r" % (e,))
    try:
        import cqlcommon
        with vlib.Lock():
            okb, log = vlib.build_harness("cql")
        cqlcommon.build_model([])      # takes the build lock itself
        if not okb:
            broken.append("harness cql does not build: " + log[-300:])
        else:
            res = cqlcommon.malformed_correspondence(run.seed, 600 if run.tier == "quick" else 6000)
            cql_n = res["cases"]
            total_cases += res["cases"]
            for k, v in res["by_class"].items():
                outcomes[("cql", k)] = outcomes.get(("cql", k), 0) + v
            for r in res["panics"]:
                findings.append({"id": "cql-%s" % r.get("id"), "entry": "cql", "outcome": "panic", "type": r.get("type_cql"), "input": r.get("hex"),
                                 "version": r.get("ver"), "what": "CQL value decoder panics: %s on %s" % (r.get("type_cql"), r.get("hex"))})
            if not res["ok"]:
                broken.append("cql malformed correspondence failed: " + res["log"][-300:])
            elif res["mismatches"]:
                broken.append("correspondence: CQL decoder model disagrees with the implementation on %s" % res["mismatches"][:10])
    except Exception as e:
        broken.append("cql part of C04 failed: %r" % (e,))
    c = run.coverage
    c["evaluations"] = len(mal) + seg_n + cql_n
    c["traces_validated_against_impl"] = total_cases
    c["distinct_nontrivial"] = len({r.get("input") for r in mal if r.get("outcome") == "err"}) + seg_n + cql_n
    c["rule"] = ("malformed streams through the real decoders in recover()-guarded, memory-limited workers: frame/raw-frame/header/body entry points "
                 "(field mutations found by tracing the real decoder, truncation at every offset, bit flips, header sweeps, splices, random), segments and "
                 "decompressors, CQL value decoders; outcome class ok/err (and the decoded frame when ok) compared with the model inside coqc; "
                 "non-trivial = distinct rejected inputs")
    c["samples"] = [{"id": r["id"], "entry": r.get("entry"), "origin": r.get("origin"), "outcome": r.get("outcome")} for r in mal[:6]]
    c["outcomes"] = {"%s/%s" % k: v for k, v in sorted(outcomes.items(), key=str)}
    c["timeouts_replayed_alone"] = replayed_timeouts[:50]
    c["observations"] = "outcome 'oom' = allocation proportional to a wire count under the harness's address-space limit (not a panic, not judged)"
    fc.verdict(run, "C04", findings, broken, "harness-frame one <entry> <version> <compression> <input hex> (or harness-seg / harness-cql with the record's input)")
