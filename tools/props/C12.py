"""C12 - CQL values are serialized exactly as the specification's formats prescribe."""
import cqlcommon as cc
import vlib

MANIFEST = {
    "text": ("Theorems: the hand-written model of datacodec's encoders (model/CqlWire.v scalars incl. writeBigInt and primitive/vint.go bit for bit; "
             "model/CqlContainers.v collections, maps, tuples, UDTs per version) equals an independent serializer transcribed from the specification "
             "(spec/SpecCql.v) for EVERY type tree of any depth and width, every version and every well-typed value: per scalar for all values (all of Z "
             "for varint: writeBigInt is the shortest two's complement; all int64 for bigint ...), by induction on the type tree for containers; the "
             "specification's own varint table and vint example are checked by computation; specification-formatted bytes decode to the value they denote "
             "(incl. any non-zero boolean byte, any negative [bytes] length, UDT values with fewer fields than the type). The model is tied to the compiled "
             "code on every run: seeded type trees / values / Go representations and directed boundary values are encoded by the real code and compared "
             "byte for byte with the model AND with the specification serializer inside coqc."),
    "technique": "Rocq proof over a hand-written model + model/code correspondence + specification oracle evaluated on the implementation's bytes",
    "design_ref": "3 C12",
    "note": ("coq/spec/SpecCql.v is a human transcription of specs/native_protocol_v5.spec sections 3, 5, 6 and the v2 collection format. The conversion layer "
             "from Go source types to the canonical intermediate value is C13's subject; value constraints the spec states but the encoder does not enforce "
             "(duration sign rule, time range, ascii range) are reported as observations, they do not change the bytes of valid values."),
}


def gen_counts(tier):
    return (2500, 1200) if tier == "thorough" else (400, 0)


def check(run):
    broken = []
    fails = cc.prelude(run, broken)
    with vlib.Lock():
        pr = vlib.coq_prop("C12")
    run.add_proof(pr)
    if not pr["ok"]:
        broken.append("props/C12.v or a dependency no longer checks: %s %s" % (pr["failed_at"], pr["errors"]))
    model_ok = cc.build_model(broken)

    recs = []
    if "harness" not in fails:
        n, _ = gen_counts(run.tier)
        for sub, args in (("directed", cc.directed_args(run.tier)), ("gen", [n])):
            rc, rs, err = cc.harness_records(sub, args, run.seed)
            if rc != 0:
                broken.append("harness cql %s failed rc=%s: %s" % (sub, rc, err))
            recs += rs
    cases = [r for r in recs if r["kind"] in ("case", "directed")]
    specdec = [r for r in recs if r["kind"] == "specdecode"]

    findings = []
    # ---- the property's predicate on the implementation: the bytes it produced are the specification's bytes (spec oracle in coqc),
    #      and the model agrees with the implementation (correspondence)
    usable = [r for r in cases if cc.usable(r)]
    spec_cases, model_cases = [], []
    for r in usable:
        args = "%d %s %s %s %s" % (r["ver"], r["type_coq"], r["val_coq"], cc.coqbool(r["unordered"]), cc.eobs(r))
        spec_cases.append((r["id"], "spec_agrees " + args))
        model_cases.append((r["id"], "enc_agrees " + args))
    byid = {r["id"]: r for r in cases}
    # the v2 [short]-prefixed positions (list element, set element, map key, map value, each alone) at 65535 / 65536 / 70000 bytes: bytes by digest against
    # the format written out in cqlcommon.v2size_expected, class and length against spec_val and m_encode in coqc; Encode repeatable and source intact
    zf, zn, zcases = cc.v2size_findings(recs, round_trip=False)
    sf0, sn0 = cc.source_findings(cases)
    findings += zf + [f for f in sf0 if f["kind"] == "encode-not-repeatable"]
    # strings with an explicit zone offset through codecs whose layout carries it: the bytes are those of the instant in UTC
    findings += cc.structprobe_findings([r for r in recs if r.get("kind") == "structprobe" and r.get("type_cql") in ("time", "date", "timestamp")])[0]
    for r in recs:
        if r.get("kind") == "v2size":
            byid[r["id"]] = dict(r, rep="preferred", enc_hex="(%d bytes, sha256 %s)" % (r["enc_len"], r["enc_sha256"][:16]))
    spec_bad = model_bad = []
    if model_ok and usable:
        # one file per shard holds both comparisons of a case: "<id>.spec" and "<id>.model"
        both = [(cid + ".spec", e) for cid, e in spec_cases] + [(cid + ".model", e) for cid, e in model_cases] + zcases
        ok1, bad, log1 = cc.eval_cases("Cases_C12", [], both)
        spec_bad = [b[:-5] for b in bad if b.endswith(".spec")]
        model_bad = [b[:-6] for b in bad if b.endswith(".model")]
        if not ok1:
            broken.append("specification oracle / correspondence file does not evaluate: " + log1[-400:])
        if model_bad:
            broken.append("correspondence: model_encode disagrees with the compiled code on cases %s" % model_bad[:20])
        if spec_bad:
            terms = []
            for cid in [c for c in spec_bad if byid[c].get("kind") != "v2size"][:8]:
                r = byid[cid]
                terms.append((cid, "spec_val %d %s %s" % (r["ver"], r["type_coq"], r["val_coq"])))
            exp = cc.eval_terms("Expect_C12", terms)
            for cid in spec_bad:
                r = byid[cid]
                f = cc.slim(r)
                f["kind"] = "bytes-differ-from-specification"
                f["expected_spec_ser"] = exp.get(cid, "(see spec_val)")
                f["what"] = "%s %s as %s v%d: encoder gave %s %s, specification serializer gives %s" % (
                    r["type_cql"], r["val_coq"][:200], r["rep"], r["ver"], r["enc_class"], r.get("enc_hex", "")[:200], f["expected_spec_ser"][:300])
                findings.append(f)
    # long encodings (not sent through coqc): the blob/text payload must appear verbatim after the expected prefix - judged by round trip in C11
    # ---- specification-formatted bytes decode to the value they denote
    for r in specdec:
        if not (r["dec_class"] == "ok" and r["dec_coq"] == r["expect_coq"]):
            findings.append({"kind": "spec-bytes-not-decoded", "type_cql": r["type_cql"], "hex": r["hex"], "ver": r["ver"], "observed_class": r["dec_class"],
                             "observed": r.get("dec_coq"), "expected": r["expect_coq"], "err": r.get("err", "")[:300],
                             "what": "%s bytes %s (%s): decoded %s %s, the specification says %s" % (r["type_cql"], r["hex"], r["what"], r["dec_class"], r.get("dec_coq", ""), r["expect_coq"])})
    if model_ok and specdec:
        sc = [(r["id"], "dec_agrees %d %s (Some (hx \"%s\")) %s" % (r["ver"], r["type_coq"], r["hex"], cc.dobs(r["dec_class"], r["dec_coq"]))) for r in specdec]
        ok3, bad3, log3 = cc.eval_cases("Cases_C12_specdec", [], sc, shards=1)
        if not ok3 or bad3:
            broken.append("correspondence (decode of specification-formatted bytes): %s %s" % (bad3, log3[-300:]))

    nontrivial = set((r["type_coq"], r["val_coq"], r["ver"] >= 3) for r in usable if r["enc_class"] == "ok")
    run.coverage["evaluations"] = len(spec_cases) + len(model_cases) + len(specdec) + zn + len(zcases)
    run.coverage["v2_size_boundary_cases"] = zn
    run.coverage["traces_validated_against_impl"] = len(model_cases)
    run.coverage["distinct_nontrivial"] = len(nontrivial)
    run.coverage["rule"] = ("each case = (type tree, version, abstract value, Go representation) encoded by the real datacodec.NewCodec(type).Encode; the bytes are compared "
                            "inside coqc (vm_compute) with spec_val (specification serializer) and with m_encode (model); non-trivial = distinct (type, value, version class) "
                            "with a non-null successful encoding; values containing a Go map with >= 2 entries are compared up to entry order via the model decoder")
    dist = {}
    for r in cases:
        k = "depth%d/%s/%s" % (r["depth"], "v2" if r["ver"] < 3 else "v3+", r["enc_class"])
        dist[k] = dist.get(k, 0) + 1
    run.coverage["input_distribution"] = dist
    run.coverage["not_through_coqc"] = len(cases) - len(usable)
    run.coverage["samples"] = [cc.slim(r, ("id", "ver", "type_cql", "rep", "val_coq", "enc_hex")) for r in usable[:5]]
    run.coverage["exhaustive"] = False
    run.coverage["characterised_observations"] = cc.probe_observations(recs, ("time", "duration", "timestamp"))
    if run.tier == "thorough":
        rc, out = vlib.coqchk("C12")
        run.note("coqchk rc=%s %s" % (rc, out.strip()[-200:]))
        if rc != 0:
            broken.append("coqchk failed: " + out[-300:])
    cc.verdict(run, "C12", findings, broken, "encode the value (val_coq, Go representation rep) with datacodec.NewCodec(type).Encode at the given version; compare with expected_spec_ser")
