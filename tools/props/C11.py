"""C11 - CQL value codecs round-trip every value of every type."""
import cqlcommon as cc
import vlib

MANIFEST = {
    "text": ("Theorems over the hand-written model of datacodec (model/CqlWire.v, CqlContainers.v): decode (encode x) = x for every scalar and every value of its "
             "canonical intermediate type (all of Z for varint, all int64 for vints ...), and by induction on the type tree for lists, sets, maps, tuples and UDTs "
             "nested to ANY depth and width, every protocol version, NULLs at any position. The Go-representation layer of the container codecs (extractors, injectors, "
             "reflection helpers, PreferredGoType; slices, arrays, []interface{}, maps, map[string]interface{}, structs with cassandra tags and case folding, pointers, "
             "interface{}) is modelled in model/CqlGoVal.v: Encode from every modelled representation equals the abstract encoder on the denoted value "
             "(C11_representations_encode); encode from any representation then decode into any destination that can hold the value returns a Go value denoting the same CQL "
             "value, by induction on the type tree (C11_representations_decode_fitting; map destinations and UDT-by-name destinations only by correspondence). It is tied to "
             "the code Go value by Go value incl. destination reuse, and exercised by directed search on the implementation - every (type, accepted representation, boundary value) and seeded type trees up to depth 4 are "
             "round-tripped through the public Codec API into the same representation and into an untyped destination (preferred Go type), and the model decoder is "
             "compared with the real decoder on the real encoder's bytes inside coqc. Floats: every accepted Go representation of CQL float (float32, float64) and "
             "double (float64, float32, *big.Float), value and pointer form, sees NaN (quiet, with payload, negative, signalling where the representation keeps it), "
             "+-Inf, +-0, subnormals; equality is 'same bits or both NaN'. An Encode error for an accepted representation of a representable value is a finding. Every "
             "container value is also decoded into an alternate typed destination (maps keyed by interface{}, untyped containers, array / struct / pointer keys): ok or "
             "error, never a panic (C11_typed_decode_no_panic: forall destination type, pre-filled content and bytes), compared with the model. Destination reuse "
             "(a variable already holding another value, e.g. non-NULL where the decoded value has a NULL) is judged for every container representation."),
    "technique": "Rocq proof over a hand-written model + model/code correspondence + directed round trips through the public Codec API",
    "design_ref": "3 C11, 8.4",
    "note": ("Partial in one respect: the representation-level decode theorem covers leaf, slice, array, interface{}, tuple-struct and positional UDT destinations; map and "
             "UDT-by-name destinations are compared with the code but not covered by the theorem. Numeric "
             "conversions between Go integer types are C13's subject. Observations not filed: a tuple/UDT type without fields encodes its only value to NULL; "
             "CqlDecimal{Unscaled:nil} round-trips to Unscaled = 0."),
}


def check(run):
    broken = []
    fails = cc.prelude(run, broken)
    with vlib.Lock():
        pr = vlib.coq_prop("C11")
    run.add_proof(pr)
    if not pr["ok"]:
        broken.append("props/C11.v or a dependency no longer checks: %s %s" % (pr["failed_at"], pr["errors"]))
    model_ok = cc.build_model(broken)
    recs = []
    if "harness" not in fails:
        n = 2500 if run.tier == "thorough" else 400
        for sub, args in (("directed", cc.directed_args(run.tier)), ("gen", [n]), ("reuse", [600 if run.tier == "thorough" else 200])):
            rc, rs, err = cc.harness_records(sub, args, run.seed)
            if rc != 0:
                broken.append("harness cql %s failed rc=%s: %s" % (sub, rc, err))
            recs += rs
    cases = [r for r in recs if r["kind"] in ("case", "directed")]
    findings = []
    # ---- the property's predicate, on the implementation: every successful non-null encoding decodes to an equal value,
    #      into an untyped destination (preferred Go type) and into the same representation
    evaluations = 0
    nontrivial = set()
    for r in cases:
        if r["enc_class"] == "panic":
            findings.append(dict(cc.slim(r), kind="encode-panic", what="%s %s as %s: Encode panicked: %s" % (r["type_cql"], r["val_coq"][:200], r["rep"], r.get("err", "")[:200])))
            continue
        if r["enc_class"] == "err" and (r["ver"] >= 3 or r["type_coq"].startswith("(TScalar")):
            # every generated (value, representation) pair is one the codec documents as accepted and able to hold the value; the only
            # legitimate refusals are those of the v2 collection format (NULL element, element / count above 65535)
            findings.append(dict(cc.slim(r), kind="encode-refused", what="%s value %s (as %s, v%d): Encode refused an accepted representation of a representable value: %s" % (
                r["type_cql"], r["val_coq"][:300], r["rep"], r["ver"], r.get("err", "")[:200])))
        if r["enc_class"] not in ("ok", "null"):
            continue
        evaluations += 1
        nontrivial.add((r["type_coq"], r["val_coq"], r["rep"], r["ver"] >= 3))
        if not (r["dec_class"] == "ok" and r["rt_equal"]):
            findings.append(dict(cc.slim(r), kind="untyped-destination-differs",
                                 what="%s value %s (as %s, v%d): decoded into *interface{} -> %s %s" % (r["type_cql"], r["val_coq"][:300], r["rep"], r["ver"], r["dec_class"], r.get("dec_coq", "")[:300] or r.get("err", "")[:200])))
        if not (r["same_class"] == "ok" and r["same_equal"]):
            findings.append(dict(cc.slim(r), kind="same-representation-differs",
                                 what="%s value %s (as %s, v%d): decoded into the same representation -> %s %s" % (r["type_cql"], r["val_coq"][:300], r["rep"], r["ver"], r["same_class"], r.get("same_coq", "")[:300] or r.get("err", "")[:200])))
    # the same bytes into one more typed destination (maps keyed by interface{}, untyped containers, array / struct / pointer keys):
    # ok or error - e.g. the refusal of a key that is not hashable - never a panic (the value is compared with the model below)
    for r in cases:
        if r.get("alt_class") == "panic":
            findings.append(dict(cc.slim(r), kind="decode-panic", dest=r.get("alt_dest"), what="%s value %s (v%d) bytes %s decoded into %s: PANIC %s" % (
                r["type_cql"], r["val_coq"][:200], r["ver"], r.get("enc_hex", "")[:200], r.get("alt_dest"), r.get("alt_err", "")[:160])))
        elif r.get("alt_class"):
            evaluations += 1
    for r in recs:
        if r["kind"] == "nan-key" and r["enc_class"] == "ok" and not r["rt_equal"]:
            findings.append(dict(cc.slim(r), kind="nan-map-key-value-lost",
                                 what="map<double,int> from Go map[float64]... {NaN: 5}: the value is encoded as NULL (%s): mapExtractor looks the key up with MapIndex, which never finds a NaN" % r.get("enc_hex", "")))
    # destination reuse, judged without the model: a variable that already holds a value must end up holding exactly the decoded value
    rf, rn = cc.reuse_findings(recs)
    findings += rf
    evaluations += rn
    # second sentence of the property: an untyped destination receives the DOCUMENTED preferred Go type, at every level (harness prefdoc.go, from doc.go)
    for r in cases:
        if r.get("pref_differs"):
            findings.append(dict(cc.slim(r), kind="preferred-type-differs", got=r.get("dec_type"), what="%s (value %s, v%d)" % (r["pref_differs"], r["val_coq"][:200], r["ver"])))
        elif r.get("dec_type"):
            evaluations += 1
    # Encode leaves its source alone and is repeatable
    sf0, sn0 = cc.source_findings(cases)
    findings += sf0
    evaluations += sn0
    # the v2 [short]-prefixed positions at the size boundary: what is accepted decodes back to the value
    zf, zn, zcases = cc.v2size_findings(recs, round_trip=True)
    findings += zf
    evaluations += zn
    # struct representations declared in source that are NOT accepted (unexported field) and decode-only struct probes (key naming no field)
    sf, sn = cc.structprobe_findings(recs)
    findings += sf
    evaluations += sn
    # ---- correspondence: the model decoder on the implementation's bytes = the implementation's decoded value; model round trip on the same value
    usable = [r for r in cases if cc.usable(r) and r["enc_class"] in ("ok", "null")]
    ccases = []
    for r in usable:
        src = '(Some (hx "%s"))' % r["enc_hex"] if r["enc_class"] == "ok" else "None"
        ccases.append((r["id"], "dec_agrees %d %s %s %s" % (r["ver"], r["type_coq"], src, cc.dobs(r["dec_class"], r["dec_coq"]))))
    # ---- Go-representation layer (model/CqlGoVal.v): Encode from the representation, Decode into the same representation and into
    #      interface{}, and destination reuse (a pre-filled variable of the same Go type), compared Go value by Go value
    repc = cc.rep_cases(usable)
    reuse = cc.reuse_cases(recs)
    ccases += repc + reuse + [c for c in zcases if c[0].endswith(".model")]
    if model_ok and ccases:
        ok, bad, log = cc.eval_cases("Cases_C11", [], ccases)
        if not ok:
            broken.append("correspondence file does not evaluate: " + log[-400:])
        if bad:
            broken.append("correspondence: the model (abstract decoder / Go-representation layer) disagrees with the compiled code on cases %s" % bad[:20])
    run.coverage["evaluations"] = evaluations + len(ccases)
    run.coverage["traces_validated_against_impl"] = len(ccases)
    run.coverage["distinct_nontrivial"] = len(nontrivial)
    run.coverage["rule"] = ("each case = (type tree, version, abstract value, accepted Go representation) through datacodec.NewCodec(type).Encode then Decode into *interface{} "
                            "and into the same representation; equality on re-abstracted values (maps up to entry order); non-trivial = distinct (type, value, representation, "
                            "version class) that encoded; correspondence = model decoder vs real decoder on the real bytes inside coqc")
    reps = {}
    for r in cases:
        k = r["rep"].split("{")[0][:40]
        reps[k] = reps.get(k, 0) + 1
    run.coverage["input_distribution"] = {"cases": len(cases), "by_depth": {str(d): sum(1 for r in cases if r["depth"] == d) for d in range(1, 7)},
                                          "v2": sum(1 for r in cases if r["ver"] < 3), "v3plus": sum(1 for r in cases if r["ver"] >= 3),
                                          "distinct_top_level_representations": len(reps)}
    run.coverage["samples"] = [cc.slim(r, ("id", "ver", "type_cql", "rep", "val_coq", "enc_hex", "dec_coq")) for r in usable[:5]]
    run.coverage["exhaustive"] = False
    run.coverage["characterised_observations"] = cc.probe_observations(recs, ("map", "list", "timestamp", "varchar", "varint"))
    run.coverage["representation_layer_cases"] = {"encode_decode": len(repc), "destination_reuse": len(reuse)}
    run.coverage["not_modelled"] = ["convertTo*/convertFrom* type switches of the scalar codecs (C13)", "struct used as a CQL map (map.go case reflect.Struct)", "slice capacity",
                                    "decode theorem C11_representations_decode_fitting does not cover map destinations and UDT into struct-by-name / map[string]V (these are covered by the correspondence run)"]
    if run.tier == "thorough":
        rc, out = vlib.coqchk("C11")
        run.note("coqchk rc=%s %s" % (rc, out.strip()[-200:]))
        if rc != 0:
            broken.append("coqchk failed: " + out[-300:])
    cc.verdict(run, "C11", findings, broken, "build the Go value of representation rep for val_coq, Encode with datacodec.NewCodec(type) at version ver, Decode the bytes into the named destination, compare")
