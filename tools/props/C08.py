"""C08 - compression is lossless for every input (partial: block codecs are oracles with a stated contract)."""
import collections

import vlib
import seglib

MANIFEST = {
    "text": ("PARTIAL. Theorems over the Gallina model of the wrapper logic of compression/lz4/lz4.go and compression/snappy/snappy.go "
             "(coq/model/Lz4Wrap.v): for EVERY byte string, Decompress(Compress x) = x in the raw segment-payload format (the doubling loop over "
             "destination sizes 2n..256n always reaches a sufficient size) and in the length-prefixed frame-body format (including the empty-message "
             "convention), and a segment encoded with the compressor decodes to the same payload - all under the contract of the third-party block "
             "functions stated in the model. NOT proved: that pierrec/lz4 and golang/snappy meet that contract; this is validated on every run by "
             "round trips over compressibility classes and sizes 0..131071 and 1 MiB (several MiB in the thorough tier), including maximum-size "
             "(131071, 131070 bytes) compressible payloads and payloads whose compressed size equals the uncompressed size through the compressing "
             "segment codec, and every entry point driven through several io.Reader / io.Writer kinds, with the measured ratio "
             "distribution in the evidence, and by direct tests of each contract clause (bound adequate, expansion <= 255, exact result into any "
             "large-enough destination, error into a too-small one)."),
    "technique": "Rocq proof over hand model with Section-variable oracles + contract validation and model/code correspondence on the implementation",
    "design_ref": "3 C08, 4",
    "note": "losslessness of pierrec/lz4 and golang/snappy themselves is assumed, validated empirically, never proved",
}


def ratio_bucket(n, c):
    if n == 0 or c == 0:
        return "empty"
    r = n / c
    for lim, name in ((1.0, "<=1 (expands)"), (2, "1-2"), (8, "2-8"), (32, "8-32"), (128, "32-128"), (255, "128-255")):
        if r <= lim:
            return name
    return ">255"


def check(run):
    broken, findings = [], []
    fails = seglib.prelude(run, broken)

    with vlib.Lock():
        pr = vlib.coq_prop("C08", extra_targets=["model/Lz4Gen.vo"])
    run.add_proof(pr)
    if not pr["ok"]:
        broken.append("props/C08.v or a dependency no longer checks: %s %s" % (pr["failed_at"], pr["errors"]))
    run.coverage["trusted_base"] += [
        "ASSUMED, not proved; validated empirically by this run EXCEPT for the known finding lz4-offset-65536 (pinned pierrec/lz4 v4.0.3 is lossy on inputs with a match at distance >= 65536): pierrec/lz4 CompressBlock/UncompressBlock/CompressBlockBound meet lz4_block_contract and golang/snappy Encode/Decode meet snappy_contract (coq/model/Lz4Wrap.v)",
        "coq/model/Lz4Wrap.v: hand-written model of the wrappers, faithful as far as the correspondence run compares it",
    ]
    run.assumptions.append("third-party block codecs are lossless and behave as lz4_block_contract / snappy_contract state (named residual of this partial property)")

    recs = seglib.run_harness(run, "c08", broken) if "harness" not in fails else []
    kinds = collections.Counter(r["kind"] for r in recs)

    # ---- (a) the property's predicate and the contract clauses, on the implementation
    dist = collections.defaultdict(collections.Counter)
    max_ratio = {}
    nontrivial = set()
    evaluations = 0
    seg_sizes = collections.Counter()
    rdr_kinds = collections.Counter()
    rdr_entry = set()
    ratio_search = None
    max_compressed_segments = []
    for r in recs:
        k = r["kind"]
        if k == "rt":
            evaluations += 1
            key = "%s/%s" % (r["algo"], r["fmt"])
            dist[key][ratio_bucket(r["len"], r["clen"])] += 1
            if r["clen"]:
                max_ratio[key] = max(max_ratio.get(key, 0), round(r["len"] / r["clen"], 2))
            nontrivial.add((key, r["class"], r["len"]))
            if not r["ok"]:
                diag = r.get("diag") or {}
                findings.append({"kind": diag.get("kind", "roundtrip-fails"), "algorithm": r["algo"], "format": r["fmt"], "content": r["class"], "len": r["len"],
                                 "class": "lz4-offset-65536" if diag.get("kind") == "lz4-block-corrupt-above-64KiB" else "lossless-failure", "run1": r.get("run1"),
                                 "seed": r.get("seed"), "detail": r.get("detail"), "diagnosis": diag, "input_hex": r.get("input_hex"),
                                 "what": "%s %s: Decompress(Compress x) != x for class %s, %d bytes: %s" % (r["algo"], r["fmt"], r["class"], r["len"], r.get("detail"))})
        elif k == "contract":
            evaluations += 1
            bad = []
            if r["compress_err"]:
                bad.append("CompressBlock fails into a CompressBlockBound-sized buffer")
            elif r["len"] == 0:
                if not r.get("empty_is_zero_token"):
                    bad.append("the empty input does not compress to the single zero token")
            else:
                for f, msg in (("nonempty", "empty block"), ("bound_ok", "block longer than CompressBlockBound"), ("ratio_ok", "block expands by more than 255"),
                               ("large_dst_exact", "UncompressBlock into a large-enough destination is not exact (dst %s)" % r.get("exact_fail_dst")),
                               ("small_dst_fails", "UncompressBlock into a too-small destination succeeds (dst %s)" % r.get("small_ok_dst"))):
                    if not r.get(f):
                        bad.append(msg)
            if r["len"] <= 131071 and r["bound"] >= 2 ** 31:
                bad.append("CompressBlockBound does not fit int32")
            if bad:
                # the lossy-block defect shows here as "not exact"; it is reported once, by the round-trip predicate above
                lossy_only = bad == ["UncompressBlock into a large-enough destination is not exact (dst %s)" % r.get("exact_fail_dst")] and r["len"] > 65536
                findings.append({"kind": "lz4-block-corrupt-above-64KiB" if lossy_only else "lz4-contract-clause-fails", "content": r["class"], "len": r["len"], "clauses": bad,
                                 "class": "lz4-offset-65536" if lossy_only else "lz4-contract", "algorithm": "lz4",
                                 "what": "pierrec/lz4 violates the assumed contract on class %s, %d bytes: %s" % (r["class"], r["len"], "; ".join(bad))})
        elif k == "contract_snappy":
            evaluations += 1
            if not r["ok"]:
                findings.append({"kind": "snappy-contract-fails", "class": r["class"], "len": r["len"], "what": "snappy.Decode(snappy.Encode x) != x for class %s, %d bytes" % (r["class"], r["len"])})
        elif k in ("seg", "segx"):
            # maximum-size (131071, 131070) compressible payloads through the compressing segment codec: round trip judged
            # on the implementation exactly as in C06
            evaluations += 1
            seg_nt = set()
            before = len(findings)
            seglib.judge_segment(r, findings, seg_nt)
            for f in findings[before:]:
                f.setdefault("len", r["desc"]["len"] if k == "seg" else r.get("plen"))
                f.setdefault("content", r["desc"]["pat"] if k == "seg" else r["class"])
            if seg_nt:
                nontrivial.add(("segment/lz4", r["desc"]["pat"] if k == "seg" else r["class"], r["desc"]["len"] if k == "seg" else r["len"], r["sc"]))
            seg_sizes[r["desc"]["len"] if k == "seg" else r.get("plen", r["len"])] += 1
            if k == "seg" and r.get("enc_ok") and r["desc"]["len"] >= 131070 and r.get("cmp_len", 1 << 30) <= r["desc"]["len"]:
                max_compressed_segments.append({"payload": r["desc"], "self_contained": r["sc"], "compressed_len": r["cmp_len"], "decode": r["dec"]["class"],
                                                "payload_back": r["dec"].get("payload_eq")})
        elif k == "rdr":
            # one entry point pair driven through one source reader kind and one destination writer kind
            evaluations += 1
            rdr_kinds[(r["src"], r["dst"])] += 1
            rdr_entry.add((r["algo"], r["compress"]))
            rdr_entry.add((r["algo"], r["decompress"]))
            if r["ok"]:
                nontrivial.add(("rdr", r["algo"], r["compress"], r["src"], r["dst"], r["class"], r["len"]))
            else:
                why = []
                if not r.get("compress_same"):
                    why.append("%s gives %s (%d bytes) where the *bytes.Buffer source gives %s (%d bytes)" % (
                        r["compress"], "output" if r["compress_ok"] else "an error", r["out_len"], "output" if r["ref_compress_ok"] else "an error", r["ref_len"]))
                if r.get("decompress_of_reference_ok") is False:
                    why.append("%s of the reference compressed bytes does not give the input back" % r["decompress"])
                if r.get("roundtrip_ok") is False:
                    why.append("%s then %s through this reader kind gives %d bytes instead of the %d-byte input" % (r["compress"], r["decompress"], r.get("roundtrip_len", 0), r["len"]))
                findings.append({"kind": "result-depends-on-reader-kind", "algorithm": r["algo"], "entry_points": [r["compress"], r["decompress"]], "source_kind": r["src"],
                                 "destination_kind": r["dst"], "content": r["class"], "len": r["len"], "seed": r["seed"], "input_hex": r.get("input_hex"),
                                 "output_hex": r.get("out_hex") or r.get("out_head_hex"), "reference_output_hex": r.get("ref_hex") or r.get("ref_head_hex"), "reasons": why,
                                 "what": "%s %s/%s with source %s and destination %s on class %s, %d bytes: %s" % (
                                     r["algo"], r["compress"], r["decompress"], r["src"], r["dst"], r["class"], r["len"], "; ".join(why))})
        elif k == "ratio_search":
            ratio_search = r
        elif k == "frame":
            evaluations += 1
            nontrivial.add(("frame", r["algo"], r["version"], r["query_len"]))
            if not r["ok"]:
                findings.append({"kind": "frame-compressed-differs", "algorithm": r["algo"], "version": r["version"], "query_len": r["query_len"], "detail": r["detail"],
                                 "what": "QUERY frame (v%d, %d-byte query) encoded with %s does not decode to the same message as the uncompressed one: %s" % (r["version"], r["query_len"], r["algo"], r["detail"])})
        elif k == "corner":
            if r["what"] == "lz4.Decompress(empty input)" and (r["err"] or r["out_len"] != 0):
                findings.append({"kind": "corner", "what": "lz4 Decompress of the empty input: err=%s len=%s" % (r["err"], r["out_len"])})
        elif k == "wrap_failed":
            broken.append("CompressBlock failed on a small input: " + r["x"][:60])

    if recs and not any(m["payload"]["len"] == 131071 for m in max_compressed_segments):
        broken.append("harness c08 ran no compressed segment with a payload of the maximum size 131071")

    if recs:
        want = {("lz4", "Compress"), ("lz4", "Decompress"), ("lz4", "CompressWithLength"), ("lz4", "DecompressWithLength"),
                ("snappy", "CompressWithLength"), ("snappy", "DecompressWithLength")}
        if not want <= rdr_entry:
            broken.append("harness c08 did not drive every entry point through the reader/writer kinds: missing %s" % sorted(want - rdr_entry))
        if len({k[0] for k in rdr_kinds}) < 6 or len({k[1] for k in rdr_kinds}) < 2:
            broken.append("harness c08 used fewer than 6 source reader kinds / 2 destination writer kinds: %s" % dict(rdr_kinds))
        if not ratio_search or not ratio_search.get("equal"):
            broken.append("harness c08: the search found no payload whose LZ4 block is exactly as long as the payload: %s" % ratio_search)
        elif not any(r["kind"] == "seg" and r.get("enc_ok") and r.get("cmp_len") == r["desc"]["len"] > 0 for r in recs):
            broken.append("harness c08 ran no segment whose compressed length equals its uncompressed length")

    # ---- (b) correspondence of the wrapper model and, for the boundary-size segments, of the segment model with the
    #          library's compressed bytes as oracle answer (same comparison as C06: emitted bytes, header fields, decoded
    #          observables; a segment the implementation fails to decode must fail in the model too)
    terms, idmap = [], {}
    for r in recs:
        t = None
        if r["kind"] == "seg":
            t = seglib.seg_case_term(r)
        elif r["kind"] == "wrap":
            o = lambda ok, h: "(Some %s)" % seglib.hx(h) if ok else "None"
            t = "wrap_case %s %s %d %s %s %s %s" % (seglib.hx(r["x"]), seglib.hx(r["block"]), r["bound"], o(r["raw_ok"], r["raw"]), o(r["withlen_ok"], r["withlen"]),
                                                 o(r["dec_raw_ok"], r["dec_raw"]), o(r["dec_withlen_ok"], r["dec_withlen"]))
        elif r["kind"] == "wrapdec":
            t = "wrapdec_case %s %s" % (seglib.hx(r["input"]), "(Some %s)" % seglib.hx(r["out"]) if r["ok"] else "None")
        if t:
            idmap[len(terms) + 1] = r
            terms.append((len(terms) + 1, t))
    if terms:
        with vlib.Lock():
            okm, log = vlib.coq_make(["model/Lz4Gen.vo"])
        if not okm:
            broken.append("model/Lz4Gen.v / Lz4Wrap.v does not compile: " + log[-400:])
        else:
            old = seglib.HEADER
            seglib.HEADER = old.replace("model.SegGen.", "model.SegGen model.Lz4Wrap model.Lz4Gen.")
            try:
                ok, failing, err = seglib.eval_cases("Cases_C08", terms, shards=6, weight=lambda t: 200 if "seg_" in t[1] else 1)
            finally:
                seglib.HEADER = old
            if not ok:
                broken.append("correspondence file for C08 does not evaluate: " + err)
            for i in failing:
                r = idmap[i]
                if r["kind"] == "seg":
                    slim = {k: v for k, v in r.items() if k not in ("full", "cmp_hex") or len(str(v)) < 400}
                    broken.append("correspondence: segment model and implementation disagree on %s" % str(slim)[:700])
                    findings.append({"kind": "model-code-disagreement", "case": slim,
                                     "what": "EncodeSegment/DecodeSegment with lz4 differs from the proved model on payload %s (self-contained %s): implementation decode is %s" % (
                                         r["desc"], r["sc"], r.get("dec", {}).get("class"))})
                    continue
                broken.append("correspondence: wrapper model and implementation disagree on %s" % str(r)[:600])
                findings.append({"kind": "model-code-disagreement", "case": r, "what": "lz4 wrapper output differs from the proved model on input %s" % str(r.get("x") or r.get("input") or r.get("desc") or {k: v for k, v in r.items() if k in ("kind", "fmt", "len", "class", "id")})[:160]})

    run.coverage["evaluations"] = evaluations + len(terms)
    run.coverage["traces_validated_against_impl"] = len(terms)
    run.coverage["distinct_nontrivial"] = len(nontrivial)
    run.coverage["rule"] = ("implementation: Compress/Decompress, CompressWithLength/DecompressWithLength of lz4.Compressor{} and snappy.Compressor{} on classes "
                            "zero / repeated byte / ramp / periodic / pseudo-random / half-random / text-like / mixed blocks / row-like x sizes 0..131072, 200000, 262144, "
                            "1 MiB (thorough: up to 8 MiB and 440 random sizes); each clause of lz4_block_contract tested directly on the library per input; "
                            "every entry point (lz4 Compress/Decompress/CompressWithLength/DecompressWithLength, snappy CompressWithLength/DecompressWithLength) driven "
                            "through 10 source reader kinds (*bytes.Buffer, *bytes.Reader, *strings.Reader, io.LimitReader, iotest.OneByteReader, a 7-byte chunking reader, "
                            "io.MultiReader, io.SectionReader, bufio.Reader, iotest.DataErrReader) x 2 destination kinds (*bytes.Buffer, a plain io.Writer): same outcome and "
                            "bytes as the *bytes.Buffer pair, decompression of the reference bytes, and the round trip per kind; segments whose LZ4 block is exactly as long "
                            "as / one byte shorter / one byte longer than the payload (found by a search over run+distinct-tail payloads against the compiled library); "
                            "QUERY frames with and without compression; EncodeSegment/DecodeSegment with lz4.Compressor{} on compressible payloads of the boundary sizes "
                            "131071 (maximum) and 131070 (zero / repeated / periodic / half-random, also run through the segment model; row-like / mixed / text-like, "
                            "implementation only; both flags); non-trivial = a distinct (algorithm/format, class, size) whose round trip was observed; "
                            "correspondence = the wrapper model inside coqc with the library's block as oracle answer, compared on emitted bytes and outcomes")
    run.coverage["samples"] = [r for r in recs if r["kind"] == "rt"][:6]
    run.coverage["exhaustive"] = False
    run.coverage["input_distribution"] = dict(kinds)
    run.coverage["compression_ratio_distribution"] = {k: dict(v) for k, v in dist.items()}
    run.coverage["max_ratio_observed"] = max_ratio
    run.coverage["reader_writer_kinds"] = {"%s -> %s" % k: v for k, v in sorted(rdr_kinds.items())}
    run.coverage["compressed_size_vs_payload_size_search"] = ratio_search
    run.coverage["segment_payload_sizes_through_lz4_codec"] = {str(k): v for k, v in sorted(seg_sizes.items())}
    run.coverage["maximum_size_compressed_segments"] = max_compressed_segments[:12]

    if run.tier == "thorough" and pr["ok"]:
        rc, out = vlib.coqchk("C08")
        run.coverage["checker_cmd"] += " ; coqchk -silent -o -Q coq GCNP GCNP.props.C08"
        if rc != 0:
            broken.append("coqchk failed on props/C08: " + out[-300:])

    seglib.finish(run, "C08", findings, broken,
                  "findings of kind result-depends-on-reader-kind: call the named entry point with the named source kind (tools/harness/cmd/seg mkSource) on input_hex; otherwise "
                  "expand the class/size/seed with tools/harness/cmd/seg expandClass (descriptor payloads: expand; pattern hex: the payload is desc.hex) and run lz4.Compressor{}.Compress then Decompress; for findings that carry "
                  "'compressor' and 'self_contained': segment.NewCodecWithCompression(lz4.Compressor{}).EncodeSegment then DecodeSegment: ./build/harness-seg c08 quick")
