"""C20 - frame mutators keep flags and body in step; STARTUP option accessors are consistent."""
import vlib
import framecommon as fc

MANIFEST = {
    "text": ("Theorems over the model of frame/frame.go's mutators (coq/model/Frame.v, Mutators.v): for EVERY finite sequence of "
             "direction-appropriate mutator calls with arbitrary arguments the header flags reflect exactly which optional body "
             "parts are present, compression is never flagged for STARTUP/OPTIONS/READY, nothing else of the frame changes; for "
             "EVERY sequence of STARTUP accessor calls each getter returns what the last matching setter stored and no other option "
             "changes (induction over the call list; flag algebra by bit-level lemmas). The model is tied to the code on every run by "
             "replaying seeded random call sequences on the real frame.Frame / message.Startup and in the model (vm_compute) and by "
             "evaluating the property's invariants directly on the implementation, including encode + round trip of the mutated frame."),
    "technique": "Rocq proof (induction over call sequences) + model/code correspondence on call sequences",
    "design_ref": "3 C20",
    "note": ("Hand-written model of the five mutators and of the option accessors; that the mutated frame still encodes and round-trips "
             "is the frame theorem of C01 applied to a frame satisfying the invariant proved here, and is additionally observed on the "
             "implementation for every generated sequence. Sequences that ignore the documented direction of a mutator (RequestTracingId on a "
             "response, SetTracingId/SetWarnings on a request) are outside the theorem; for them the check judges on the implementation only "
             "that no mutator panics and that whatever still encodes decodes again with declared length = emitted length."),
}


def check(run):
    fails = vlib.standard_prelude(run, "constants", "frame")
    broken = []
    for k in ("forbidden", "go2coq", "harness"):
        if k in fails:
            broken.append("%s: %s" % (k, str(fails[k])[-500:]))
    with vlib.Lock():
        pr = vlib.coq_prop("C20", extra_targets=["model/FrameEq.vo", "model/Hex.vo"])
    run.add_proof(pr)
    if run.tier == "thorough" and pr["ok"]:
        import framecommon
        framecommon.thorough_coqchk(run, "C20", broken)
    if not pr["ok"]:
        broken.append("props/C20.v or a dependency no longer checks: %s %s" % (pr["failed_at"], pr["errors"]))

    n = 400 if run.tier == "quick" else 6000
    recs, err = ([], None)
    if "harness" not in fails:
        recs, err = fc.run_harness(run, "mutators", n)
    if err:
        broken.append(err)

    findings = []
    cases = []
    distinct = set()
    kinds = {}
    for r in recs:
        if r.get("misuse"):
            # sequences that ignore the documented direction of a mutator (RequestTracingId on a response, SetWarnings on a request,
            # a payload below v4): the flag/body invariants are characterised only, but two clauses are judged for them as well -
            # no mutator panics, and whatever still encodes decodes again with the declared length equal to the emitted length
            kinds["any-direction"] = kinds.get("any-direction", 0) + 1
            distinct.add(("any-direction", r.get("kind"), r.get("version"), tuple(r.get("ops_coq", []))))
            inv = r.get("invariants") or {}
            if inv.get("no_panic") is False or (r.get("encode") == "ok" and (r.get("decode") != "ok" or r.get("lengths_ok") is not True)):
                findings.append({"kind": "mutators-any-direction", "message_kind": r.get("kind"), "version": r.get("version"), "ops": r.get("ops"),
                                 "flags_after": r.get("flags_after"), "encode": r.get("encode"), "decode": r.get("decode"), "lengths_ok": r.get("lengths_ok"),
                                 "what": "mutator sequence %s on %s v%s (response=%s): the frame encodes but %s %s" % (
                                     r.get("ops"), r.get("kind"), r.get("version"), r.get("response"),
                                     "a mutator panicked" if inv.get("no_panic") is False else
                                     ("does not decode" if r.get("decode") != "ok" else "its declared body length differs from the emitted bytes"), r.get("why", ""))})
            continue
        if r.get("kind") == "startup":
            kinds["startup"] = kinds.get("startup", 0) + 1
            distinct.add(("startup", tuple(r.get("ops_coq", []))))
            bad = [k for k, v in (r.get("invariants") or r.get("verdict") or {}).items() if v is False]
            if bad or r.get("ok") is False:
                findings.append({"kind": "startup-accessors", "ops": r.get("ops"), "observed": r.get("observed"), "failed": bad,
                                 "what": "STARTUP accessor sequence %s: %s" % (r.get("ops"), r.get("why", bad))})
            if r.get("ops_coq") is not None and r.get("final") is not None:
                ops = "[%s]" % "; ".join(r["ops_coq"])
                cases.append((r["id"], "match (fold_left apply_sop %s %s), %s with a, b => "
                              "list_beq _ (prod_beq _ _ (list_beq _ Z.eqb) (list_beq _ Z.eqb)) "
                              "(map (fun k => (key_bytes k, observe a k)) all_keys) (map (fun k => (key_bytes k, observe b k)) all_keys) end"
                              % (ops, r["initial"], r["final"])))
            continue
        kinds[r.get("kind", "?")] = kinds.get(r.get("kind", "?"), 0) + 1
        distinct.add((r.get("kind"), r.get("version"), tuple(r.get("ops_coq", []))))
        inv = r.get("invariants") or {}
        bad = [k for k, v in inv.items() if v is False]
        if bad or r.get("roundtrip_equal") is False or r.get("encode") == "err":
            findings.append({"kind": "mutators", "message_kind": r.get("kind"), "version": r.get("version"), "ops": r.get("ops"),
                             "flags_after": r.get("flags_after"), "failed": bad, "encode": r.get("encode"),
                             "roundtrip_equal": r.get("roundtrip_equal"),
                             "what": "mutator sequence %s on %s v%s breaks %s (encode=%s roundtrip=%s) %s" % (
                                 r.get("ops"), r.get("kind"), r.get("version"), bad, r.get("encode"), r.get("roundtrip_equal"), r.get("why", ""))})
        if r.get("ops_coq") is not None and r.get("message") is not None:
            ops = "[%s]" % "; ".join(r["ops_coq"])
            cases.append((r["id"], "Frame_beq (run_mops (NewFrame %s %s %s) %s) %s" % (
                vlib.zlit(r["version"]), vlib.zlit(r["stream_id"]), r["message"], ops, r["frame_after"])))

    mism = []
    if cases and pr["ok"]:
        prelude = ["Definition all_keys := [KClientId; KApplicationName; KApplicationVersion; KDriverName; KDriverVersion; KCompression; KThrowOnOverload]."]
        mism, cerr = fc.eval_cases("Cases_C20", prelude, cases)
        if cerr:
            broken.append(cerr)
        elif mism:
            broken.append("correspondence: the model's mutators/accessors disagree with the implementation on cases %s" % mism[:20])
            byid = {r["id"]: r for r in recs}
            for cid in mism[:5]:
                r = byid.get(cid, {})
                findings.append({"kind": "model-mismatch", "id": cid, "ops": r.get("ops"), "message_kind": r.get("kind"), "version": r.get("version"),
                                 "what": "model and implementation differ after mutator/accessor sequence %s" % r.get("ops"), "model_only": True})

    c = run.coverage
    c["evaluations"] = len(recs) + len(cases)
    c["traces_validated_against_impl"] = len(cases)
    c["distinct_nontrivial"] = len([d for d in distinct if len(d[-1]) >= 1])
    c["rule"] = ("seeded random sequences (length 0..8) of the five frame mutators on NewFrame of every message kind and version, and of the STARTUP "
                 "accessors; each sequence is run on the implementation (invariants of C20, encode, round trip) and replayed in the model under "
                 "vm_compute (final frame / getter answers compared); non-trivial = distinct sequence with at least one call")
    c["samples"] = [{"kind": r.get("kind"), "version": r.get("version"), "ops": r.get("ops")} for r in recs[:5]]
    c["input_distribution"] = kinds

    known = vlib.known_findings("C20")
    for f in findings:
        if f.get("model_only"):
            continue
        k = next((e for e in known if e.get("match") and all(f.get(a) == b for a, b in e["match"].items())), None)
        if k:
            run.known(k.get("what", f["what"]))
        else:
            run.violation({"property": "C20", "failing_input": f, "broken": broken,
                           "how_to_replay": "apply the listed calls to frame.NewFrame(version, streamId, message) / message.NewStartup()"})
    if broken and not run.violations:
        run.violation({"property": "C20", "broken": broken, "model_mismatches": [f for f in findings if f.get("model_only")],
                       "note": "a proof obligation or the model/code correspondence no longer checks and the search found no failing input on the implementation"},
                      no_input=True)
