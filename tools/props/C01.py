"""C01 - frame round-trip fidelity for every message, version and compression."""
import vlib
import framecommon as fc

MANIFEST = {
    "text": ("Theorems over a hand-written Gallina mirror of frame/, message/, primitive/, datatype/ (encoder, length computation and decoder "
             "modelled separately): for EVERY version-valid frame (computable predicate frame_okb) of all 45 message kinds and 6 versions, "
             "EncodeFrame succeeds and DecodeFrame of the bytes followed by any further bytes returns the frame in normal form and exactly the "
             "rest - uncompressed, and compressed for any lossless compressor (C08's contract). Proved by one read/write lemma per notation, "
             "induction on type trees and lists, one round-trip theorem per message kind, assembled through the codec dispatch. The five Flags() "
             "methods whose value drives writer and reader are regenerated from message/*.go on every run (go2coq unit flags) and proved equal "
             "to the definitions the theorems use. The model is "
             "tied to the code on every run: thousands of generated valid frames (every optional-field subset, value classes, all versions, "
             "lz4/snappy) are encoded and decoded by the real codec and by the model (vm_compute) and compared (bytes, decoded structure, "
             "validity), and the round trip is evaluated directly on the implementation."),
    "technique": "Rocq proof (per-notation and per-message round-trip lemmas, structural induction) + model/code correspondence",
    "design_ref": "3 C01",
    "note": ("Hand-written model: faithful only as far as the correspondence compared it. Compression enters as a lossless-compressor "
             "hypothesis; the real LZ4 violates it on one input class (known finding, pierrec/lz4 v4.0.3 match offset 65536)."),
}


def check(run):
    broken, findings = [], []
    fails, pr = fc.frame_prelude(run, "C01", broken)
    n = 300 if run.tier == "quick" else 20000
    recs, err = ([], None)
    if "harness" not in fails:
        recs, err = fc.run_harness(run, "gen", n, ["thorough"] if run.tier == "thorough" else [])
    if err:
        broken.append(err)
    valid = [r for r in recs if r.get("valid", True)]
    # ---- the property's own predicate on the implementation
    dist = {}
    for r in valid:
        key = "%s/v%s/%s" % (r.get("kind"), r.get("version"), r.get("compression"))
        dist[key] = dist.get(key, 0) + 1
        ch = r.get("checks") or {}
        if r.get("encode") != "ok" or r.get("decode") != "ok" or ch.get("roundtrip_equal") is False or ch.get("chunked_decode") is False:
            f = fc.slim(r)
            f["kind_of_failure"] = "roundtrip"
            f["what"] = "frame %s v%s %s flags=%s does not round-trip (encode=%s decode=%s): %s" % (
                r.get("kind"), r.get("version"), r.get("compression"), r.get("flags"), r.get("encode"), r.get("decode"), r.get("why", ""))
            if fc.is_known_lz4(r):
                f["class"] = fc.LZ4_CLASS
                f["algorithm"] = "lz4"
            findings.append(f)
    # ---- correspondence with the model
    sel, skipped = fc.select_records(valid, run.tier)
    cases = []
    for r in sel:
        if fc.is_known_lz4(r):
            continue
        c = fc.comp_term(r)
        cases.append((r["id"] + ":okb", "frame_okb %s" % r["frame"]))
        if r.get("decode") == "ok":
            cases.append((r["id"] + ":dec", "dec_eq %s %s %s" % (c, fc.hxs(r["bytes"]), r["decoded"])))
        if r.get("encode") == "ok" and r.get("deterministic"):
            cases.append((r["id"] + ":enc", "enc_eq %s %s %s" % (c, r["frame"], fc.hxs(r["bytes"]))))
    nv = fc.nonvalid_cases(recs)
    cases += nv
    mism = []
    if cases and fc.can_eval(pr):
        mism, cerr = fc.eval_cases("Cases_C01", fc.FRAME_PRELUDE, cases)
        if cerr:
            broken.append(cerr)
        elif mism:
            broken.append("correspondence: model and implementation disagree on %d case(s): %s" % (len(mism), mism[:12]))
            byid = {r["id"]: r for r in recs}
            for cid in mism[:6]:
                r = byid.get(cid.split(":")[0], {})
                f = fc.slim(r)
                f.update({"model_only": True, "case": cid, "what": "model/code mismatch (%s)" % cid})
                findings.append(f)
    c = run.coverage
    c["evaluations"] = len(valid) + len(cases)
    c["traces_validated_against_impl"] = len(cases)
    c["distinct_nontrivial"] = len({r.get("bytes") for r in valid if r.get("encode") == "ok" and len(r.get("bytes", "")) > 20})
    c["rule"] = ("harness-frame gen: deterministic enumeration (kind x version x optional-field subsets x legal flag combinations x compression) + value-class "
                 "sweep + seeded random frames, all version-valid by tables written from specs/*.spec; each is round-tripped by the real codec (equality up to "
                 "nil/empty and IPv4 4/16 bytes) and a subset is replayed in the model (validity, decode of the Go bytes, encode to the Go bytes); non-trivial = "
                 "distinct encodings longer than a bare header")
    c["samples"] = [fc.slim(r, ("id", "kind", "version", "flags", "compression", "variant")) for r in valid[:6]]
    c["input_distribution"] = dict(sorted(dist.items())[:400])
    c["records_skipped_in_model_for_size"] = skipped
    fc.verdict(run, "C01", findings, broken, "tools/harness: `harness-frame gen` with VERIF_SEED=%d reproduces the record by id; the frame term is in the replay" % run.seed)
