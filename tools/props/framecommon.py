"""Helpers shared by the frame-area checks (C01-C05, C20): harness invocation, Coq case files."""
import json
import os

import vlib

CASE_HEADER = (vlib.EVAL_HEADER +
               "From GCNP Require Import base.GoInt base.Bytes base.Codec gen.Constants_gen model.Hex model.Prim model.DataType "
               "model.MsgTypes model.Frame model.FrameEq model.Mutators.\n")


def run_harness(run, sub, n, extra=(), timeout=900):
    """Run build/harness-frame <sub> <n> ...; returns (records, error-or-None)."""
    args = [sub, str(n)] + list(extra)
    rc, out, err = vlib.harness("frame", args, run.seed, timeout=timeout)
    recs = []
    for line in out.split("\n"):
        line = line.strip()
        if not line:
            continue
        try:
            recs.append(json.loads(line))
        except ValueError:
            return recs, "harness-frame %s printed a non-JSON line: %r" % (sub, line[:200])
    if rc != 0:
        return recs, "harness-frame %s failed rc=%s: %s" % (sub, rc, err[-400:])
    return recs, None


def _eval_shard(args):
    name, idx, prelude_lines, part, timeout = args
    lines = [CASE_HEADER] + list(prelude_lines)
    lines.append("Definition cases : list (string * bool) := [\n  %s]." % ";\n  ".join(
        "(%s, %s)" % (vlib.coq_str(cid), term) for cid, term in part))
    lines.append("Definition mism := Eval vm_compute in map fst (filter (fun c => negb (snd c)) cases).")
    lines.append("Print mism.")
    rc, out = vlib.coq_eval("%s_%d" % (name, idx), "\n".join(lines) + "\n", timeout=timeout)
    flat = " ".join(out.split())
    if rc != 0:
        return [], "case file %s shard %d does not evaluate: %s" % (name, idx, flat[-600:])
    if "mism = []" in flat:
        return [], None
    body = flat[flat.index("mism =") + 6:]
    body = body[:body.rindex(":")] if ":" in body else body
    return [x.strip().strip('"') for x in body.strip().strip("[]").split(";") if x.strip()], None


def eval_cases(name, prelude_lines, cases, shard=300, timeout=900, workers=None):
    """cases: list of (id, coq_bool_term). Evaluates them in parallel shards inside coqc (vm_compute);
    returns (list of failing ids, error-or-None)."""
    from concurrent.futures import ThreadPoolExecutor
    jobs = [(name, s // shard, prelude_lines, cases[s:s + shard], timeout) for s in range(0, len(cases), shard)]
    failing, err = [], None
    with ThreadPoolExecutor(max_workers=workers or max(2, min(12, vlib.NCPU - 2))) as ex:
        for ids, e in ex.map(_eval_shard, jobs):
            failing.extend(ids)
            err = err or e
    return failing, err


# ---------------------------------------------------------------------------------------------
# shared logic of C01 / C03 / C05 (valid frames) and C04 (malformed stream)

FRAME_PRELUDE = [
    "From GCNP Require Import model.MsgRequests model.MsgErrors model.MsgResults model.MsgCodec model.MsgValid model.FrameValid model.FrameCanon.",
    "Definition mkcomp (raw comp : list Z) : option compressor :=",
    "  Some {| cmp_compress := fun x => if list_beq Z Z.eqb x raw then Ok comp else Err;",
    "          cmp_decompress := fun y => if list_beq Z Z.eqb y comp then Ok raw else Err |}.",
    "Definition dec_eq (c : option compressor) (bs : list Z) (expect : Frame) : bool :=",
    "  match decode_frame the_msg_codec c bs with",
    "  | DOk f rest => Frame_beq (canon_frame f) (canon_frame expect) && match rest with [] => true | _ => false end",
    "  | _ => false end.",
    "Definition enc_eq (c : option compressor) (f : Frame) (bs : list Z) : bool :=",
    "  match encode_frame the_msg_codec c f with Ok b => list_beq Z Z.eqb b bs | Err => false end.",
    "Definition dec_eq_rest (c : option compressor) (bs : list Z) (expect : Frame) (restlen : Z) : bool :=",
    "  match decode_frame the_msg_codec c bs with",
    "  | DOk f rest => Frame_beq (canon_frame f) (canon_frame expect) && Z.eqb (zlen rest) restlen",
    "  | _ => false end.",
    "Definition enc_err (c : option compressor) (f : Frame) : bool :=",
    "  match encode_frame the_msg_codec c f with Ok _ => false | Err => true end.",
    "Definition dec_class (c : option compressor) (bs : list Z) : Z :=",
    "  match decode_frame the_msg_codec c bs with DOk _ _ => 0 | DErr => 1 | DPanic => 2 | DFuel => 3 end.",
]

FRAME_TARGETS = ["model/FrameEq.vo", "model/Hex.vo", "model/FrameCanon.vo", "model/FrameValid.vo", "model/MsgValid.vo", "model/Mutators.vo"]

LZ4_CLASS = "lz4-offset-65536"


def hxs(h):
    """Coq term for a byte string given in hex; long strings are split (coqc overflows on huge literals)."""
    if len(h) <= 8000:
        return '(hx "%s")' % h
    parts = [h[i:i + 8000] for i in range(0, len(h), 8000)]
    t = '(hx "%s")' % parts[-1]
    for p in reversed(parts[:-1]):
        t = '(app (hx "%s") %s)' % (p, t)
    return t


def select_records(recs, tier, limit_hex=12000):
    """Quick tier: corpus + every 4th enumerated record + sweep + random; records with huge bodies are left to the
    implementation-side checks (they cost seconds each inside coqc)."""
    out, skipped = [], 0
    k = 0
    for r in recs:
        if r.get("phase") == "enum":
            k += 1
            if tier == "quick" and k % 4 != 0:
                continue
        if len(r.get("bytes", "")) > limit_hex:
            skipped += 1
            continue
        out.append(r)
    return out, skipped


def comp_term(r):
    """The compressor oracle of a record: none, or the (raw body, compressed body) pair the real compressor produced."""
    if r.get("compression", "none") == "none" or not (r.get("flags", 0) & 1):
        return "None"
    hdr = 8 if r["version"] == 2 else 9
    return "(mkcomp %s %s)" % (hxs(r.get("raw_body", "")), hxs(r["bytes"][2 * hdr:]))


def nonvalid_cases(recs):
    """Frames outside the property's domain (harness phase `nonvalid`): never judged, but the model must still do what the code does
    (same bytes when the encoder accepts, an error when it refuses, same decoded frame) - this ties the error branches of the model."""
    cases = []
    for r in recs:
        if r.get("valid", True) or is_known_lz4(r) or len(r.get("bytes", "")) > 12000 or not r.get("frame"):
            continue
        c = comp_term(r)
        if r.get("encode") == "ok":
            if r.get("deterministic"):
                cases.append((r["id"] + ":nv-enc", "enc_eq %s %s %s" % (c, r["frame"], hxs(r["bytes"]))))
            if r.get("decode") == "ok" and r.get("decoded"):
                cases.append((r["id"] + ":nv-dec", "dec_eq_rest %s %s %s %d" % (c, hxs(r["bytes"]), r["decoded"],
                                                                             len(r["bytes"]) // 2 - int(r.get("consumed", len(r["bytes"]) // 2)))))
            elif r.get("decode") == "err":
                cases.append((r["id"] + ":nv-decerr", "Z.eqb (dec_class %s %s) 1" % (c, hxs(r["bytes"]))))
        elif r.get("encode") == "err":
            cases.append((r["id"] + ":nv-encerr", "enc_err %s %s" % (c, r["frame"])))
    return cases


def is_known_lz4(r):
    return r.get("class") == LZ4_CLASS and r.get("compression") == "lz4"


def frame_prelude(run, prop, broken):
    fails = vlib.standard_prelude(run, "constants,flags,bodyplan", "frame")
    for k in ("forbidden", "go2coq", "harness"):
        if k in fails:
            broken.append("%s: %s" % (k, str(fails[k])[-500:]))
    with vlib.Lock():
        pr = vlib.coq_prop(prop, extra_targets=FRAME_TARGETS)
    run.add_proof(pr)
    if not pr["ok"]:
        broken.append("props/%s.v or a dependency no longer checks: %s %s" % (prop, pr["failed_at"], pr["errors"]))
    if run.tier == "thorough" and pr["ok"]:
        thorough_coqchk(run, prop, broken)
    run.coverage["trusted_base"].append("coq/model/{Prim,DataType,Msg*,Frame}.v: hand-written mirror of primitive/, datatype/, message/, frame/; "
                                        "faithful only as far as the correspondence run compared it with the compiled code")
    return fails, pr


def can_eval(pr):
    """The model/code comparison needs only the model files (definitions): when a proof file no longer checks, the models
    are rebuilt on their own so that the search for a failing input still has the model side."""
    if pr["ok"]:
        return True
    with vlib.Lock():
        ok, _ = vlib.coq_make(FRAME_TARGETS)
    return ok


def verdict(run, prop, findings, broken, how):
    known = vlib.known_findings(prop)
    for f in findings:
        if f.get("model_only"):
            continue
        k = next((e for e in known if e.get("match") and all(f.get(a) == b for a, b in e["match"].items())), None)
        if k:
            run.known(k.get("what", f.get("what", "")))
        else:
            run.violation({"property": prop, "failing_input": f, "broken": broken, "how_to_replay": how})
    # one KNOWN-FINDING line per known entry is enough
    seen = set()
    run.known_lines = [l for l in run.known_lines if not (l in seen or seen.add(l))]
    if broken and not run.violations:
        run.violation({"property": prop, "broken": broken, "model_mismatches": [f for f in findings if f.get("model_only")][:10],
                       "note": "a proof obligation or the model/code correspondence no longer checks and the search found no failing input on the implementation"},
                      no_input=True)


def slim(r, keys=("id", "kind", "version", "flags", "compression", "phase", "variant", "class", "why", "frame", "bytes")):
    d = {k: r.get(k) for k in keys if k in r}
    for k in ("frame", "bytes"):
        if isinstance(d.get(k), str) and len(d[k]) > 4000:
            d[k] = d[k][:4000] + "...(truncated; re-run harness-frame gen with the same seed for the full record)"
    return d


def thorough_coqchk(run, prop, broken):
    """Thorough tier: re-check the compiled property file and everything it depends on with the independent checker."""
    with vlib.Lock():
        rc, out = vlib.coqchk(prop)
    tail = " ".join(out.strip().split("\n")[-12:])
    run.coverage["coqchk"] = {"rc": rc, "tail": tail[-1500:]}
    run.coverage["checker_cmd"] += " ; coqchk -silent -o -Q . GCNP GCNP.props.%s" % prop
    if rc != 0:
        broken.append("coqchk rejects props/%s.vo: %s" % (prop, tail[-400:]))
