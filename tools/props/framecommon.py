"""Helpers shared by the frame-area checks (C01-C05, C20): harness invocation, Coq case files."""
import json
import os

import vlib

CASE_HEADER = (vlib.EVAL_HEADER +
               "From GCNP Require Import base.GoInt base.Bytes base.Codec gen.Constants_gen model.Hex model.Prim model.DataType "
               "model.MsgTypes model.Frame model.FrameEq model.Mutators.\n")


def run_harness(run, sub, n, extra=(), timeout=900):
    """Run build/harness-frame <sub> <n> ...; returns (records, error-or-None)."""
    args = [sub, str(n)] + list(extra)
    rc, out, err = vlib.harness("frame", args, run.seed, timeout=timeout)
    recs = []
    for line in out.splitlines():
        line = line.strip()
        if not line:
            continue
        try:
            recs.append(json.loads(line))
        except ValueError:
            return recs, "harness-frame %s printed a non-JSON line: %r" % (sub, line[:200])
    if rc != 0:
        return recs, "harness-frame %s failed rc=%s: %s" % (sub, rc, err[-400:])
    return recs, None


def _eval_shard(args):
    name, idx, prelude_lines, part, timeout = args
    lines = [CASE_HEADER] + list(prelude_lines)
    lines.append("Definition cases : list (string * bool) := [\n  %s]." % ";\n  ".join(
        "(%s, %s)" % (vlib.coq_str(cid), term) for cid, term in part))
    lines.append("Definition mism := Eval vm_compute in map fst (filter (fun c => negb (snd c)) cases).")
    lines.append("Print mism.")
    rc, out = vlib.coq_eval("%s_%d" % (name, idx), "\n".join(lines) + "\n", timeout=timeout)
    flat = " ".join(out.split())
    if rc != 0:
        return [], "case file %s shard %d does not evaluate: %s" % (name, idx, flat[-600:])
    if "mism = []" in flat:
        return [], None
    body = flat[flat.index("mism =") + 6:]
    body = body[:body.rindex(":")] if ":" in body else body
    return [x.strip().strip('"') for x in body.strip().strip("[]").split(";") if x.strip()], None


def eval_cases(name, prelude_lines, cases, shard=300, timeout=900, workers=None):
    """cases: list of (id, coq_bool_term). Evaluates them in parallel shards inside coqc (vm_compute);
    returns (list of failing ids, error-or-None)."""
    from concurrent.futures import ThreadPoolExecutor
    jobs = [(name, s // shard, prelude_lines, cases[s:s + shard], timeout) for s in range(0, len(cases), shard)]
    failing, err = [], None
    with ThreadPoolExecutor(max_workers=workers or max(2, min(12, vlib.NCPU - 2))) as ex:
        for ids, e in ex.map(_eval_shard, jobs):
            failing.extend(ids)
            err = err or e
    return failing, err
