"""C03 - declared lengths equal emitted bytes; back-to-back frames decode in sequence."""
import vlib
import framecommon as fc

MANIFEST = {
    "text": ("Theorems over the Gallina mirror of the codec, where every EncodedLength / LengthOf* function is modelled separately from its "
             "writer (as in Go): for every valid message the reported length is the number of bytes written; for every valid frame the header's "
             "body length is the number of body bytes, the encoding is header ++ body and the decoder returns everything after it untouched; "
             "hence ANY finite sequence of valid frames written back to back decodes to the same sequence (induction over the list). Primitive "
             "length functions are proved over their whole domain (the vint case in C12's development). Tied to the code by comparing the real "
             "EncodedLength / declared / emitted lengths with the model on generated frames and by decoding two-frame streams on the implementation."),
    "technique": "Rocq proof (length lemmas per notation/message, induction over frame sequences) + model/code correspondence",
    "design_ref": "3 C03",
    "note": "Hand-written model: faithful only as far as the correspondence compared it.",
}


def check(run):
    broken, findings = [], []
    fails, pr = fc.frame_prelude(run, "C03", broken)
    n = 300 if run.tier == "quick" else 20000
    recs, err = ([], None)
    if "harness" not in fails:
        recs, err = fc.run_harness(run, "gen", n, ["thorough"] if run.tier == "thorough" else [])
    if err:
        broken.append(err)
    valid = [r for r in recs if r.get("valid", True) and r.get("encode") == "ok"]
    for r in valid:
        ch = r.get("checks") or {}
        bad = [k for k in ("body_length_equal", "length_fn_equal", "stream2", "consumed_equal") if ch.get(k) is False]
        if r.get("body_len_declared") != r.get("body_len_emitted"):
            bad.append("declared!=emitted")
        if bad:
            f = fc.slim(r)
            f.update({"failed": bad, "declared": r.get("body_len_declared"), "emitted": r.get("body_len_emitted"),
                      "what": "frame %s v%s %s flags=%s: %s (declared body length %s, emitted %s) %s" % (
                          r.get("kind"), r.get("version"), r.get("compression"), r.get("flags"), bad, r.get("body_len_declared"),
                          r.get("body_len_emitted"), r.get("why", ""))})
            if fc.is_known_lz4(r):
                f["class"] = fc.LZ4_CLASS
                f["algorithm"] = "lz4"
            findings.append(f)
    # the notation clause on its own: LengthOf / Write / Read of every primitive notation on value sweeps (several of these
    # functions - the vint lengths, for instance - are not reachable through frames)
    prims = []
    if "harness" not in fails:
        prims, perr = fc.run_harness(run, "prims", 0)
        if perr:
            broken.append(perr)
        elif not prims:
            broken.append("harness-frame prims printed no record")
    for r in prims:
        if r.get("ok") is False:
            findings.append({"id": r["id"], "kind": "notation", "notation": r.get("notation"), "value": r.get("value"), "length_fn": r.get("length_fn"),
                             "written": r.get("written"), "what": "primitive notation [%s], value %s: %s" % (r.get("notation"), r.get("value"), r.get("why"))})
    run.coverage["primitive_notation_cases"] = len(prims)
    sel, skipped = fc.select_records(valid, run.tier)
    cases = []
    for r in sel:
        if r.get("encoded_length_fn", -1) >= 0:
            cases.append((r["id"] + ":len", "match len_message %d (bd_Message (f_Body %s)) with Ok n => Z.eqb n %d | Err => false end" % (
                r["version"], r["frame"], r["encoded_length_fn"])))
        if r.get("compression") == "none" or not (r.get("flags", 0) & 1):
            cases.append((r["id"] + ":blen", "match uncompressed_body_length the_msg_codec (f_Header %s) (f_Body %s) with Ok n => Z.eqb n %d | Err => false end" % (
                r["frame"], r["frame"], r["body_len_emitted"])))
    if cases and fc.can_eval(pr):
        mism, cerr = fc.eval_cases("Cases_C03", fc.FRAME_PRELUDE, cases)
        if cerr:
            broken.append(cerr)
        elif mism:
            broken.append("correspondence: model length functions disagree with the implementation on %d case(s): %s" % (len(mism), mism[:12]))
            byid = {r["id"]: r for r in sel}
            for cid in mism[:6]:
                f = fc.slim(byid.get(cid.split(":")[0], {}))
                f.update({"model_only": True, "case": cid, "what": "model/code mismatch (%s)" % cid})
                findings.append(f)
    c = run.coverage
    c["evaluations"] = len(valid) + len(cases)
    c["traces_validated_against_impl"] = len(cases)
    c["distinct_nontrivial"] = len({(r.get("kind"), r.get("version"), r.get("body_len_emitted")) for r in valid if r.get("body_len_emitted", 0) > 0})
    c["rule"] = ("same generator as C01; on the implementation: declared body length = emitted body bytes, message EncodedLength = emitted message bytes, "
                 "a stream of two frames decodes in sequence with nothing left, DecodeFrame consumes exactly header + declared length; in the model: "
                 "len_message and uncompressed_body_length evaluated on the same frames; non-trivial = distinct (kind, version, body length > 0)")
    c["samples"] = [{"id": r["id"], "kind": r.get("kind"), "version": r.get("version"), "declared": r.get("body_len_declared"),
                     "emitted": r.get("body_len_emitted"), "length_fn": r.get("encoded_length_fn")} for r in valid[:6]]
    c["records_skipped_in_model_for_size"] = skipped
    fc.verdict(run, "C03", findings, broken, "harness-frame gen with VERIF_SEED=%d reproduces the record by id" % run.seed)
