"""Shared by C11 / C12 / C14 (and reusable by C04): drives build/harness-cql, writes the Coq correspondence files."""
import json
import os
import re
from concurrent.futures import ThreadPoolExecutor

import vlib

HEADER = ("From Coq Require Import ZArith List String Bool.\n"
          "From GCNP Require Import base.GoInt base.Bytes spec.SpecCql model.CqlWire model.CqlContainers model.CqlTyping model.CqlCases model.CqlGoVal model.CqlGoCases.\n"
          "Import ListNotations.\nOpen Scope Z_scope.\n"
          "Set Printing Depth 1000000.\nSet Printing Width 1000000.\n")

MODEL_TARGETS = ["model/CqlCases.vo", "model/CqlGoCases.vo"]
MAX_HEX = 6000          # cases with longer encodings are judged on the implementation only (Coq string literals stay small)

TRUSTED = [
    "coq/spec/SpecCql.v: hand transcription of specs/native_protocol_v5.spec sections 3, 5, 6 and of the v2 collection format",
    "coq/model/CqlWire.v, CqlContainers.v: hand-written model of datacodec's wire and container layer, faithful as far as the correspondence run compared it with the compiled code",
    "math/big (Bytes, BitLen, SetBytes, Lsh, Add, Sub), encoding/binary, bytes.Buffer / bytes.Reader, reflect: modelled by their documented behaviour",
    "tools/harness/cmd/cql: abstraction of Go values to abstract CQL values (abs) and construction of Go representations (mk)",
]


def harness_records(sub, args, seed, timeout=900):
    rc, out, err = vlib.harness("cql", [sub] + [str(a) for a in args], seed, timeout=timeout)
    recs = []
    for l in out.split("\n"):
        l = l.strip()
        if l:
            try:
                recs.append(json.loads(l))
            except ValueError:
                return rc or 1, recs, "unparsable harness line: " + l[:200]
    return rc, recs, err[-600:]


def eobs(r):
    c = r["enc_class"]
    if c == "ok":
        return '(EOk (hx "%s"))' % r["enc_hex"]
    return {"null": "ENull", "err": "EErr", "panic": "EPanic"}.get(c, "EPanic")


def dobs(cls, coq):
    if cls == "ok":
        return "(DOk %s)" % coq
    return {"err": "DErr", "panic": "DPanic"}.get(cls, "DNone")


def coqbool(b):
    return "true" if b else "false"


def usable(r):
    return r.get("enc_class") != "nocodec" and len(r.get("enc_hex", "")) <= MAX_HEX and len(r.get("val_coq", "")) <= 4 * MAX_HEX


def directed_args(tier):
    return [] if tier == "thorough" else ["quick"]


def eval_cases(name, defs, cases, shards=8, timeout=900):
    """cases: list of (id, coq_bool_expr). Returns (ok, mismatching ids, log)."""
    if not cases:
        return True, [], ""
    shards = max(1, min(shards, (len(cases) + 39) // 40))
    chunks = [cases[i::shards] for i in range(shards)]

    def one(i):
        lines = [HEADER] + defs
        lines.append("Definition cases : list (string * bool) := [\n  %s]." % ";\n  ".join('(%s, %s)' % (vlib.coq_str(cid), e) for cid, e in chunks[i]))
        lines.append("Definition mism := Eval vm_compute in map fst (filter (fun c => negb (snd c)) cases).")
        lines.append("Print mism.")
        res = vlib.coq_eval("%s_%d" % (name, i), "\n".join(lines) + "\n", timeout=timeout)
        if res[0] == 0 and "mism = []" in " ".join(res[1].split()):
            # generated case files are large; everyone's forbidden_scan walks coq/run - keep only files that need a look
            try:
                os.remove(os.path.join(vlib.COQ, "run", "%s_%d.v" % (name, i)))
            except OSError:
                pass
        return res

    with ThreadPoolExecutor(max_workers=shards) as ex:
        results = list(ex.map(one, range(shards)))
    bad, logs, ok = [], [], True
    for rc, out in results:
        flat = " ".join(out.split())
        if rc != 0:
            ok = False
            logs.append(out[-600:])
            continue
        m = re.search(r"mism = \[(.*?)\]\s*: list string", flat)
        if not m:
            ok = False
            logs.append(flat[-300:])
            continue
        bad += re.findall(r'"([^"]*)"', m.group(1))
    return ok, bad, "\n".join(logs)


def eval_terms(name, terms, timeout=600):
    """terms: list of (label, coq expr). Returns {label: printed value} (used to print the model's / spec's expectation in replays)."""
    if not terms:
        return {}
    lines = [HEADER]
    for i, (lab, e) in enumerate(terms):
        lines.append("Definition x%d := Eval vm_compute in %s.\nPrint x%d." % (i, e, i))
    rc, out = vlib.coq_eval(name, "\n".join(lines) + "\n", timeout=timeout)
    res = {}
    flat = " ".join(out.split())
    for i, (lab, e) in enumerate(terms):
        m = re.search(r"x%d = (.*?) : " % i, flat)
        res[lab] = m.group(1)[:2000] if m else "(not evaluated)"
    return res


def known_match(known, f):
    return next((e for e in known if e.get("match") and all(str(f.get(a)) == str(b) for a, b in e["match"].items())), None)


def verdict(run, prop, findings, broken, how):
    known = vlib.known_findings(prop)
    seen = set()
    for f in findings:
        k = known_match(known, f)
        if k:
            w = k.get("what", f.get("what", ""))
            if w not in seen:
                seen.add(w)
                run.known(w)
        else:
            run.violation({"property": prop, "failing_input": f, "how_to_replay": how, "broken": broken})
            if len(run.violations) >= 8:
                break
    if broken and not run.violations:
        run.violation({"property": prop, "broken": broken,
                       "note": "a proof obligation or the model/code correspondence no longer checks and the search found no failing input"}, no_input=True)


def slim(r, keys=("id", "ver", "type_cql", "rep", "val_coq", "enc_class", "enc_hex", "dec_class", "dec_coq", "same_class", "same_coq", "err")):
    d = {}
    for k in keys:
        if k in r and r[k] not in ("", None):
            v = r[k]
            d[k] = v if len(str(v)) <= 1500 else str(v)[:1500] + "...(%d chars)" % len(str(v))
    return d


def prelude(run, broken):
    fails = vlib.standard_prelude(run, None, "cql")
    if "forbidden" in fails:
        broken.append("forbidden declarations in the development: %s" % fails["forbidden"])
    if "harness" in fails:
        broken.append("harness cql does not build against /repo: " + fails["harness"].strip()[-600:])
    run.coverage["trusted_base"] += TRUSTED
    return fails


def build_model(broken):
    with vlib.Lock():
        ok, log = vlib.coq_make(MODEL_TARGETS)
    if not ok:
        broken.append("model/CqlCases.v or a dependency does not build: " + log[-500:])
    return ok


def malformed_correspondence(seed, n=1500, shards=8):
    """datacodec half of C04: run `harness-cql malformed n` (real decoders on mutated encodings, recover()) and compare every mutant with the
    model inside coqc.  Each mutant is decoded into an untyped destination (outcome class ok/err/panic against decode_class) and into typed
    destinations - maps keyed by interface{} / arrays / structs holding interfaces / pointers, untyped containers, the representation the
    value was encoded from - where the outcome AND the value left in the variable are compared with the Go-representation model g_decode.
    A directed part (harness keyBases) runs map / set types whose key decodes to an unhashable Go value into every destination style.
    Returns dict(cases=, skipped=, panics=[records], mismatches=[ids], ok=bool, log=str, by_class={}).
    The model statements to cite next to it: proofs/CqlContainerProofs.decode_no_panic (forall v t src, m_decode v t src <> PANIC) and
    proofs/CqlGoValProofs.g_decode_no_panic (forall v t gt d src, g_decode v t gt d src <> PANIC)."""
    rc, recs, err = harness_records("malformed", [n], seed)
    ran = [r for r in recs if r["kind"] == "malformed"]
    skipped = [r for r in recs if r["kind"] == "malformed-skipped"]
    cls = {"ok": "COk", "err": "CErr", "panic": "CPanic"}
    cases = []
    for r in ran:
        src = "None" if r.get("mut") == "null" else '(Some (hx "%s"))' % r["hex"]
        if r.get("dest", "*interface {}") == "*interface {}":
            cases.append((r["id"], 'class_eqb (decode_class %d %s %s) %s' % (r["ver"], r["type_coq"], src, cls.get(r["class"], "CPanic"))))
        elif r.get("gty") and len(r.get("result_g", "")) <= 3 * MAX_HEX:
            cases.append((r["id"], "g_dec_agrees %d %s %s (gzero %s) %s %s" % (r["ver"], r["type_coq"], r["gty"], r["gty"], src,
                                                                               gobs(r["class"], r.get("was_null", False), r.get("result_g", "GVNilIface")))))
    ok, bad, log = eval_cases("Cases_C04_cql", [], cases, shards=shards)
    by = {}
    for r in ran:
        by[r["class"]] = by.get(r["class"], 0) + 1
    panics = []
    for r in ran:
        if r["class"] == "panic":
            # the caller (C04) prints type_cql / hex / ver of a panic record: name the destination with the type
            panics.append(dict(r, type_cql="%s decoded into %s (%s; %s)" % (r["type_cql"], r.get("dest", "*interface {}"), r.get("mut", ""), r.get("err", "")[:120])))
    return {"cases": len(ran), "skipped": len(skipped), "panics": panics, "mismatches": bad,
            "ok": ok and rc == 0, "log": (err if rc != 0 else "") + log, "by_class": by, "records": {r["id"]: r for r in ran},
            "typed_destinations": sum(1 for r in ran if r.get("dest", "*interface {}") != "*interface {}"), "compared_in_coq": len(cases)}


def gobs(cls, was_null, g):
    if cls == "ok":
        return "(GOk %s %s)" % (coqbool(was_null), g)
    return {"err": "GErr", "panic": "GPanic"}.get(cls, "GPanic")


def rep_cases(cases):
    """Go-representation layer (model/CqlGoVal.v): for every case whose representation lies in the modelled universe, the Encode
    from the representation, the Decode into the same representation and the Decode into an untyped destination."""
    out = []
    for r in cases:
        if not r.get("src_gty") or not usable(r) or len(r.get("src_g", "")) > 3 * MAX_HEX:
            continue
        out.append((r["id"] + ".genc", "g_enc_agrees %d %s %s %s %s %s %s" % (r["ver"], r["type_coq"], r["src_gty"], r["src_g"], r["val_coq"], coqbool(r["unordered"]), eobs(r))))
        if r["enc_class"] not in ("ok", "null"):
            continue
        src = '(Some (hx "%s"))' % r["enc_hex"] if r["enc_class"] == "ok" else "None"
        if r.get("dest_gty") and r.get("same_class") == "ok":
            out.append((r["id"] + ".gsame", "g_dec_agrees %d %s %s (gzero %s) %s %s" % (r["ver"], r["type_coq"], r["dest_gty"], r["dest_gty"], src, gobs("ok", r["same_null"], r["same_g"]))))
        if r.get("dec_g") and r.get("dec_class") == "ok":
            out.append((r["id"] + ".giface", "g_dec_agrees %d %s GIface GVNilIface %s %s" % (r["ver"], r["type_coq"], src, gobs("ok", r["dec_null"], r["dec_g"]))))
    return out + alt_cases(cases)


def alt_cases(cases):
    """the bytes of every container case decoded into one more typed destination (maps keyed by interface{}, untyped containers, array /
    struct / pointer keys): outcome (ok / err, e.g. the refusal of an unhashable key) and value against the Go-representation model"""
    out = []
    for r in cases:
        if not r.get("alt_gty") or r.get("enc_class") not in ("ok", "null") or not usable(r) or len(r.get("alt_g", "")) > 3 * MAX_HEX:
            continue
        src = '(Some (hx "%s"))' % r["enc_hex"] if r["enc_class"] == "ok" else "None"
        out.append((r["id"] + ".galt", "g_dec_agrees %d %s %s (gzero %s) %s %s" % (r["ver"], r["type_coq"], r["alt_gty"], r["alt_gty"], src,
                                                                                  gobs(r["alt_class"], r.get("alt_null", False), r.get("alt_g", "GVNilIface")))))
    return out


def reuse_findings(recs, null_only=False):
    """Destination reuse judged WITHOUT the model: a variable that already holds a value (no NULLs, no empty containers, or an arbitrary one)
    must afterwards hold exactly the decoded value - nothing of the old one may survive at a position where the new value has a NULL, a
    shorter list, ... - and a NULL / empty input must report wasNull and leave the zero value.  Types containing a CQL map are left to the
    model comparison: a Go map variable that is not nil keeps its old entries (adjustMapSize re-uses the map; documented observation).
    null_only: only the records that involve a NULL (C14).  Returns (findings, evaluations)."""
    findings, n = [], 0
    for r in recs:
        if r["kind"] != "reuse" or "map<" in r["type_cql"]:
            continue
        if null_only and r["input"] == "value" and "VNull" not in r["val_coq"]:
            continue
        n += 1
        if r["input"] == "value":
            bad = r["class"] != "ok" or not r.get("result_equal") or r.get("was_null")
            expected = r["val_coq"]
        else:
            bad = r["class"] != "ok" or not r.get("was_null") or not r.get("zeroed")
            expected = "wasNull = true and the zero value"
        if bad:
            observed = r.get("result_abs", "") if r["class"] == "ok" else "%s %s" % (r["class"], r.get("err", "")[:200])
            findings.append({"kind": "destination-reuse", "type_cql": r["type_cql"], "rep": r["rep"], "ver": r["ver"], "prefilled": r.get("prefill_abs", "")[:400], "input": r["input"],
                             "decoded_bytes": r.get("hex", ""), "expected": expected[:400], "observed": str(observed)[:400], "was_null": r.get("was_null"),
                             "what": "%s (%s input) into a %s variable already holding %s: expected %s, got %s" % (
                                 r["type_cql"], r["input"], r["rep"], r.get("prefill_abs", "")[:120], expected[:120], str(observed)[:120])})
    return findings, n


def reuse_cases(recs):
    out = []
    for r in recs:
        if r["kind"] != "reuse" or not r.get("gty"):
            continue
        src = {"value": '(Some (hx "%s"))' % r["hex"], "null": "None", "empty": "(Some [])"}[r["input"]]
        out.append((r["id"], "g_dec_agrees %d %s %s %s %s %s" % (r["ver"], r["type_coq"], r["gty"], r["prefill_g"], src, gobs(r["class"], r.get("was_null", False), r.get("result_g", "GVNilIface")))))
    return out


def probe_observations(recs, about=None):
    """characterised behaviours measured by `cql directed` on every run (harness tags.go probes): outside what C11 / C12 / C14 state, reported in
    the evidence, never judged. about: keep only the CQL types named."""
    return [{"what": r["what"], "type": r["type_cql"], "outcome": r["class"], "observed": r["detail"]} for r in recs
            if r.get("kind") == "probe" and (about is None or r["type_cql"].split("<")[0] in about)]


def structprobe_findings(recs):
    """struct representations outside the accepted set (a CQL field resolving to an unexported field; a map entry whose key names no field):
    error or a faithful result - never a panic, never an entry stored under another key. Returns (findings, evaluations)."""
    out, n = [], 0
    for r in recs:
        if r.get("kind") != "structprobe":
            continue
        n += 1
        if r["class"] == "panic" or not r.get("holds"):
            out.append({"kind": "struct-field-lookup", "type_cql": r["type_cql"], "dest": r.get("dest"), "bytes": r.get("hex", ""), "observed": r["class"], "detail": r.get("detail", "")[:300],
                        "what": "%s, %s (bytes %s): violated: %s; observed %s %s" % (r["type_cql"], r.get("dest"), r.get("hex", "")[:120], r["what"], r["class"], r.get("detail", "")[:200])})
    return out, n


def source_findings(cases):
    """Encode must not modify its source and must be a function of it: the Go value re-abstracted (and re-printed) after Encode is what it was built
    from, a second Encode of the same Go value gives the same outcome and bytes, the decoded value equals the source as it is afterwards.
    Returns (findings, evaluations)."""
    out, n = [], 0
    for r in cases:
        if "src_intact" not in r or r.get("enc_class") == "panic":
            continue
        n += 1
        if not r["src_intact"]:
            out.append(dict(slim(r), kind="source-mutated", source_after=r.get("src_after_coq", "")[:600],
                            what="%s value %s (as %s, v%d): Encode modified its source: afterwards the Go value denotes %s" % (
                                r["type_cql"], r["val_coq"][:300], r["rep"], r["ver"], r.get("src_after_coq", "(same abstract value, other Go value)")[:300])))
        elif not r.get("enc2_same", True):
            out.append(dict(slim(r), kind="encode-not-repeatable", second=r.get("enc2_hex", "")[:600],
                            what="%s value %s (as %s, v%d): a second Encode of the same Go value gave %s, the first %s %s" % (
                                r["type_cql"], r["val_coq"][:300], r["rep"], r["ver"], r.get("enc2_hex", "")[:200], r["enc_class"], r.get("enc_hex", "")[:200])))
        elif r.get("enc_class") in ("ok", "null") and r.get("dec_class") == "ok" and r.get("rt_equal") and not r.get("rt_equal_src", True):
            out.append(dict(slim(r), kind="source-mutated", what="%s value %s (as %s, v%d): the decoded value differs from the source as it is after Encode" % (
                r["type_cql"], r["val_coq"][:300], r["rep"], r["ver"])))
    return out, n


def v2size_expected(r):
    """the bytes the collection format prescribes for a harness v2size record (native_protocol_v2.spec 6.x / v5 5.x: a [short] (v2) or [int] (v3+) count,
    then every element / key / value as [short bytes] (v2) or [bytes]); None when v2 cannot express it (an element longer than 65535 bytes)."""
    import hashlib
    w = 2 if r["ver"] < 3 else 4
    big, short = b"a" * r["size"], b"k"
    elems = {"list-element": [short, big, short], "set-element": [big], "map-key": [big, short], "map-value": [short, big]}[r["position"]]
    count = 1 if r["position"] != "list-element" else 3
    if w == 2 and any(len(e) > 65535 for e in elems):
        return None
    b = count.to_bytes(w, "big") + b"".join(len(e).to_bytes(w, "big") + e for e in elems)
    return len(b), hashlib.sha256(b).hexdigest()


def v2size_findings(recs, round_trip):
    """the four [short]-prefixed positions of the v2 collection format at 65535 / 65536 / 70000 bytes, judged on the implementation: accepted with exactly the
    prescribed bytes (digest) or refused where v2 cannot express the length; round_trip: what was accepted decodes back to the value (C11).
    Returns (findings, evaluations, coq cases)."""
    out, n, cases = [], 0, []
    cls = {"ok": "COk", "err": "CErr", "panic": "CPanic"}
    for r in recs:
        if r.get("kind") != "v2size":
            continue
        n += 1
        exp = v2size_expected(r)
        where = "%s v%d, %s of %d bytes (all other elements 1 byte)" % (r["type_cql"], r["ver"], r["position"], r["size"])
        f = {"type_cql": r["type_cql"], "ver": r["ver"], "position": r["position"], "size": r["size"], "val_coq": r["val_coq"], "enc_class": r["enc_class"], "enc_len": r["enc_len"]}
        if round_trip:
            if r["enc_class"] == "ok" and not r["rt_equal"]:
                out.append(dict(f, kind="untyped-destination-differs", what="%s: encoded (%d bytes) but does not decode back to the value: %s" % (where, r["enc_len"], r.get("err", "")[:200])))
            elif r["enc_class"] == "panic" or (r["enc_class"] == "err" and exp is not None):
                out.append(dict(f, kind="encode-refused", what="%s: Encode %s: %s" % (where, r["enc_class"], r.get("err", "")[:200])))
        else:
            if exp is None and r["enc_class"] != "err":
                out.append(dict(f, kind="bytes-differ-from-specification", what="%s: the v2 format cannot express this length ([short] prefix) yet Encode returned %s, %d bytes" % (where, r["enc_class"], r["enc_len"])))
            elif exp is not None and (r["enc_class"] != "ok" or (r["enc_len"], r["enc_sha256"]) != exp):
                out.append(dict(f, kind="bytes-differ-from-specification", what="%s: expected %d bytes sha256 %s, Encode gave %s %d bytes sha256 %s" % (
                    where, exp[0], exp[1][:16], r["enc_class"], r["enc_len"], r["enc_sha256"][:16])))
        args = "%d %s %s %s %d" % (r["ver"], r["type_coq"], r["val_coq"], cls.get(r["enc_class"], "CPanic"), r["enc_len"])
        cases.append((r["id"] + ".model", "enc_shape_agrees " + args))
        cases.append((r["id"] + ".spec", "spec_shape_agrees " + args))
    return out, n, cases
