"""C16 - connections terminate cleanly on close, peer loss and timeout (partial: runtime facts exercised, not proved)."""
import inflightlib as il

MANIFEST = {
    "text": ("PARTIAL. Proved over the executable Gallina model of client/inflight.go for ALL finite histories: no request channel is closed "
             "twice (the Go panic is unreachable; closed channel <=> done; error only on done requests); Close completes every pending request "
             "(done, channel closed, non-nil error, delivered pages kept) and empties the map; afterwards sends and deliveries are refused and the "
             "handler stays closed; every live request has an armed timer at most `timeout` ahead; a request that sees no frame while `timeout` "
             "elapses fails with the timeout error whatever else happens on the connection; before its deadline a tick changes nothing, and while "
             "pages keep arriving less than `timeout` apart the request never times out. Tie: timing histories on the real handler (timeout "
             "500 ms; observations only <= 0.3 or >= 3 timeouts after arming) and close-in-every-position exhaustive histories compared with the "
             "model. NOT proved, exercised by the harness: goroutines end, blocked receivers return, Close returns, on scripted socket "
             "sessions (client/server/network-side close at each step boundary; more successive connections than MaxConnections on one server)."),
    "technique": "Rocq proof (invariants over histories, abstract clock) + model/code correspondence + scripted socket sessions with goroutine accounting",
    "design_ref": "3 C16, 4, 8.1",
    "note": ("Partial by nature: goroutine scheduling, TCP and the Go memory model are outside the model. Lifecycle of CqlServer / "
             "CqlServerConnection is exercised by the socket sessions only."),
    "hooks": il.HOOKS,
}


def check(run):
    broken, findings, results = il.standard(run, "C16", "c16", extra_subs=("sock", "race", "wire"))
    run.coverage["rule"] = (
        "timing: histories with clock ticks on a real handler with timeout 500 ms (tick unit 50 ms); between two long ticks (30 units) the "
        "short ticks add up to <= 3 units so every observation is made <= 0.3 or >= 3 timeouts after a timer was armed; exh-N2-P1-d3(+conn): "
        "every history of depth 3 (Close in every position); rand-N2/N3. timing-paged: multi-page responses whose pages arrive every 0.2-0.3 "
        "timeouts while the whole response takes 2.4-2.7 timeouts (6.3 in thorough), alone, two interleaved, through processIncomingFrame, "
        "and followed by silence (must time out then, not before); verdict timeout-early = a request failed with the timeout error less than "
        "timeout/2 after a frame for it, all earlier gaps below timeout/2, by the harness's own clock (so load can only suppress the "
        "verdict); a timing history whose harness clock shows more than 0.8 timeouts where the model's clock has less than one (or less "
        "than 1.2 where it has more) is re-run, at most twice, and left out of the correspondence if still off schedule. reuse-timeout: the "
        "id of a timed-out request is sent again before its late final frame. flood-conn: more EVENT frames than the events queue holds. "
        "Every call into the library runs under a watchdog (2 s of normally scheduled waiting): verdicts receiver-blocked / send-blocked / "
        "close-hangs name the history and the step. In every socket session four more receivers are blocked when the close is injected - a "
        "goroutine ranging over EventChannel(), one in ReceiveEvent(), one looping on CqlServerConnection.Receive(), one ranging over "
        "InFlightRequest.Incoming() - and each must have returned 3 s after the close (ReadTimeout is 5 s, so a receiver released only by its "
        "timeout is flagged), on every close route (client, server connection, server, context, peer reset): verdict receiver-blocked with "
        "route and receiver kind. From the wire sessions: after a fatal ERROR response (SERVER_ERROR, PROTOCOL_ERROR, AUTH_ERROR) the client "
        "connection closes and the other outstanding requests are completed with an error within 3 s. Accept sessions (sock, exercised): a server with MaxConnections 1 or 2 (1..3 in thorough) "
        "receives more successive client connections than that (2m+2) through Bind / BindAndInit / Connect+Accept, AcceptAny never called (and a "
        "variant with a goroutine draining it); 0..m clients stay open, every other one is closed before the next connects, from the client "
        "side (the server connection's reader is then the first closer) or from the server connection; with m open one more must be refused, "
        "not blocked; then CqlServer.Close() must return within 4 s and the goroutine count must return to the baseline; verdicts "
        "accept-blocked (Bind/Accept does not return within 8 s, or a client is still refused 5 s after its predecessors were closed: the slot "
        "of a closed connection never came back), close-hangs, goroutine-leak, with the session and the goroutine stacks. Lifecycle sessions "
        "(sock, deterministic): CqlServer.Close with an Accept pending for a client the server has forgotten / that never arrives / after an "
        "Accept that timed out (Close returns without panic, the Accept returns at once); Start on a taken port (error, IsRunning false, Close "
        "is harmless, Start works once the port is free). Race families (race, each in a child process for a time box of 3-5 s, 30 s in "
        "thorough, 4 workers): a response delivered around the moment the read timeout fires (timeout 100us-2ms, offset -40..+60us) and pages "
        "delivered while the handler closes; Send from 4 goroutines while the client connection closes; Send/SendRaw while the server "
        "connection closes; Close of a server connection whose peer streams requests; Close of a client connection whose peer streams events "
        "or answers requests around their read timeout; deliver-close (3 s): final responses of 1..3 managed requests delivered on one "
        "goroutine while the handler is closed on another (close() alone, and cancel of the connection context first, as Close does) - after "
        "both returned every request must be complete: channel closed and (frame received or Err() != nil), verdict request-stuck with the "
        "iteration and the request's state; handshake-steps (deterministic, 66 sessions): close / peer loss at every step of the handshake "
        "(before OPTIONS, after SUPPORTED, after AUTHENTICATE; with and without credentials; v4, v5) for AcceptHandshake (raw TCP client), "
        "InitiateHandshake (raw TCP server), PerformHandshake (one end closed before / 0.2 ms / 1 ms into the call) and BindAndInit - each "
        "must return within 4 s (verdict handshake-hangs with entry point, step, stacks) and leave no goroutine of a connection behind. "
        "Every Send returns a value or an error, every Close returns, the child survives; "
        "verdict panic carries the panic value and stack (recovered in the caller) or the child's exit status and the runtime's panic message "
        "(library goroutine), close-hangs the stacks after 6 s without progress. Probabilistic: detection rates on the pre-fix code are in "
        "notes/inflight.md. Observed, not judged (evidence notes): Close() called from a connection's own handler; a timed-out request keeps "
        "its managed id until the late response. Socket sessions (sock): scripted client/server sessions on localhost, "
        "close injected from the client, the server or the peer socket at each step boundary, goroutine count compared with the baseline "
        "after bounded waits - exercised, not proved. non-trivial = at least one request accepted and one other kind of outcome")
    il.verdict(run, "C16", broken, findings)
