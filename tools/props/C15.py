"""C15 - client and server exchange frames intact under every version and compression (PARTIAL by nature)."""
import ast
import concurrent.futures
import json
import os
import re

import vlib
from vlib import zlit

# failure classes of the harness that known_findings.jsonl lists for C15 (match keys: class + mode/version/compression, see notes/conn.md section 8)
KNOWN_CLASSES = ("v2-managed-stream-id-overflow", "v5-handshake-envelope-compressed")

UNITS = "constants,crc"
AREA = "conn"

MANIFEST = {
    "text": ("PARTIAL. Proved over coq/model/Conn.v, a model of the framing state machine of client/client.go and client/server.go (readFrame/"
             "writeFrame, readSegment/writeSegment, readSelfContainedSegment, addMultiSegmentPayload, maybeSwitchToModernLayout, adoption of the "
             "STARTUP compression) that is parametric in a frame codec and a segment codec satisfying round-trip laws (discharged by the C01/C03 "
             "and C06 theorems, and for full frames by the assembled message codecs of C01): legacy delivery of every list of frames written "
             "back to back; modern delivery for EVERY segmentation the specification allows (inductive relation: any grouping of whole envelopes "
             "into self-contained segments, any cut of one envelope of any size - inside its 9-byte header as well - into any number of parts "
             "carried by non-self-contained segments, zero-length parts included, any mixture, no bound on counts or sizes; envelopes that are a bare "
             "9-byte header with an empty body - OPTIONS, READY - in any position, stated separately for the end of a self-contained segment) with an empty "
             "accumulator at the end; what each end transmits (legacy: the plain frame; modern: one self-contained segment holding one envelope "
             "with the compression flag clear; an envelope above 131071 bytes is refused, never split); the layout switch (both ends switch at "
             "the same envelope boundary for v5, never for v2-v4/DSE); the server adopts the STARTUP compression name in any letter case. NOT proved, exercised by the harness only: TCP, partial reads, deadlines "
             "and the goroutine hand-off - loopback sessions of the real client and server (6 versions x compression x "
             "authentication), a raw peer on the frame and segment codecs that chooses segmentations against the real server and the real "
             "client and checks the v5 bytes they write, and the same scripts evaluated by the model inside coqc."),
    "technique": "Rocq proof over a hand model parametric in the codecs + socket sessions (real client/server, raw peer) + model/code correspondence",
    "design_ref": "3 C15, 4, 8.2",
    "note": ("Partial by nature: TCP, partial reads, deadlines, goroutine scheduling and the channels between the loops and the user are outside "
             "the model and are exercised, not proved. With LZ4 the theorems ask the compressor contract of C08 of every segment payload "
             "(third-party code); sending an envelope above 131071 bytes in v5 is not supported by the library (stated, outside the quantifier)."),
}

HEADER = vlib.EVAL_HEADER + """From GCNP Require Import base.GoInt base.Bytes base.Codec model.Hex model.Prim model.Frame model.Segment model.Conn.
Close Scope string_scope.
Definition flat3 (l : list (Z * Z * Z)) : list (list Z) := map (fun x : Z * Z * Z => [fst (fst x); snd (fst x); snd x]) l.
Definition flatp (l : list (bool * Z * Z)) : list (list Z) := map (fun x : bool * Z * Z => [if fst (fst x) then 1 else 0; snd (fst x); snd x]) l.
Definition flat2 (l : list (Z * Z)) : list (list Z) := map (fun x : Z * Z => [fst x; snd x]) l.
Definition show_rx (x : list (bool * Z * Z) * list (Z * Z * Z) * Z * Z * Z) : list (list (list Z)) :=
  match x with (p, d, o, t, a) => [flatp p; flat3 d; [[o; t; a]]] end.
"""


# The model's loop condition of readSelfContainedSegment (Conn.sc_more: remaining > 0) was transcribed from this source text;
# the check looks the text up on every run (the behaviour is tied by the sessions and the correspondence, this ties the reading).
ANCHORS = [
    ("client/client.go", "func (c *CqlClientConnection) readSelfContainedSegment(", "for payloadReader.Len() > 0 {"),
    ("client/server.go", "func (c *CqlServerConnection) readSelfContainedSegment(", "for payloadReader.Len() > 0 {"),
]


def source_anchors():
    bad = []
    for rel, head, want in ANCHORS:
        try:
            src = open(os.path.join(vlib.REPO, rel)).read()
        except OSError as e:
            bad.append("%s: %s" % (rel, e))
            continue
        i = src.find(head)
        body = src[i:src.find("\n}\n", i)] if i >= 0 else ""
        if want not in " ".join(body.split()):
            bad.append("%s: %s...) no longer contains `%s` (Conn.read_sc / sc_more model that loop: every envelope of a self-contained payload, "
                       "a bare 9-byte header included, is decoded while any byte is unread); found: %s" % (
                           rel, head, want, " ".join(l.strip() for l in body.split("\n") if l.strip().startswith("for "))[:200] or "no such function"))
    return bad


def hxs(h):
    if not h:
        return None
    parts = ['hx "%s"%%string' % h[i:i + 8192] for i in range(0, len(h), 8192)]
    return " ++ ".join(parts)


def body_term(d):
    parts = []
    if d["pre"]:
        parts.append(hxs(d["pre"]))
    if d["fill"]:
        parts.append("%s %d %d" % ("lcg_filler" if d["fill"] == "l" else "filler", d["seed"], d["n"]))
    if d["suf"]:
        parts.append(hxs(d["suf"]))
    return "(" + " ++ ".join(parts) + ")" if parts else "[]"


def env_term(d):
    return "(raw_envelope %d %s %d %s %d %s)" % (d["v"], "true" if d["resp"] else "false", d["flags"], zlit(d["sid"]), d["op"], body_term(d))


def comp_term(c):
    return {"NONE": "CNone", "LZ4": "CLz4", "SNAPPY": "CSnappy"}.get(c, "COther")


def case_text(name, c):
    role = "Server" if c["role"] == "server" else "Client"
    plan = "; ".join("(%s, [%s])" % ("true" if p["self"] else "false", "; ".join("(%d%%nat, %d, %d)" % tuple(sl) for sl in p["sl"])) for p in c["plan"])
    txrole = "Server" if c["tx_role"] == "server" else "Client"
    lines = ["Definition %s_rx := Eval vm_compute in show_rx (corr_rx %s %s [%s] [%s])." % (
        name, role, comp_term(c["comp"]), "; ".join(env_term(d) for d in c["envs"]), plan),
        "Print %s_rx." % name,
        "Definition %s_tx := Eval vm_compute in flat2 (corr_tx %s %s [%s])." % (
            name, txrole, comp_term(c["comp"]), "; ".join(env_term(d) for d in (c.get("tx_frames") or []))),
        "Print %s_tx." % name]
    return "\n".join(lines) + "\n"


def parse_prints(out):
    """name -> python value of every `name = [...] : list ...` printed by coqc"""
    res = {}
    flat = " ".join(out.split())
    for m in re.finditer(r"(\w+) = (\[.*?\]) : list", flat):
        try:
            res[m.group(1)] = ast.literal_eval(m.group(2).replace(";", ","))
        except Exception:
            res[m.group(1)] = None
    return res


def compare(c, rx, tx):
    """model (rx, tx) against the observations of one session; returns a list of disagreements"""
    bad = []
    if rx is None or tx is None:
        return ["the model terms of this session did not evaluate"]
    payloads, delivered, (ooc,) = rx
    impl_p = [[1 if p["self"] else 0, p["len"], p["crc"]] for p in c["payloads"]]
    if payloads != impl_p:
        bad.append("segment payloads: model %s, raw peer %s" % (payloads[:6], impl_p[:6]))
    code, target, acclen = ooc
    want = {"ok": 0, "abort": 1}.get(c["outcome"], -9)
    if code != want:
        bad.append("outcome: model code %d (0 ok, 1 abort, 2 panic, 3 stuck), implementation %s" % (code, c["outcome"]))
    impl_d = [list(x) for x in (c.get("delivered") or [])]
    aborted = c["outcome"] == "abort"

    def differs(model, impl):
        # when the connection is aborted, what had been handed over but not yet picked up by the user (or not yet
        # written) is lost in the close: the implementation's observation is then a prefix of the model's
        return impl != (model[:len(impl)] if aborted else model)
    if c["role"] == "server":
        if differs(delivered, impl_d):
            bad.append("delivered frames (stream, opcode, body length): model %s, server %s" % (delivered[:8], impl_d[:8]))
    else:
        ev = [x for x in delivered if x[1] == 12]
        rs = sorted(x for x in delivered if x[1] != 12)
        impl_r = sorted(list(x) for x in (c.get("responses") or []))
        if differs(ev, impl_d):
            bad.append("events in delivery order: model %s, client %s" % (ev[:8], impl_d[:8]))
        if (not aborted and rs != impl_r) or any(x not in rs for x in impl_r):
            bad.append("responses by stream: model %s, client %s" % (rs[:8], impl_r[:8]))
    if c["conforming"] and c["outcome"] == "ok" and (target, acclen) != (0, 0):
        bad.append("accumulator after a conforming script: model target %d, %d bytes" % (target, acclen))
    # transmit side: one self-contained segment per frame, payload = the envelope with its compression flag clear
    over = 12 if c["comp"] == "LZ4" else 10
    model_tx = [[l - over, t] for l, t in tx]
    impl_tx = [[p["len"], p["crc"]] for p in (c.get("tx_payloads") or [])]
    if differs(model_tx, impl_tx):
        bad.append("segments written by the %s: model (payload length, CRC-32) %s, captured %s" % (c["tx_role"], model_tx[:6], impl_tx[:6]))
    if any(n != 1 for n in (c.get("tx_counts") or [])) or any(not p["self"] for p in (c.get("tx_payloads") or [])):
        bad.append("the %s did not write exactly one envelope per self-contained segment: %s" % (c["tx_role"], c.get("tx_counts")))
    return bad


def check(run):
    broken = []
    fails = vlib.standard_prelude(run, UNITS, AREA)
    if "forbidden" in fails:
        broken.append("forbidden declarations in the development: %s" % fails["forbidden"])
    if "go2coq" in fails:
        broken.append("translation of primitive/constants.go, crc/*.go failed: " + fails["go2coq"].strip()[-600:])
    if "harness" in fails:
        broken.append("harness conn does not build against /repo: " + fails["harness"].strip()[-600:])

    for b in source_anchors():
        broken.append("source anchor: " + b)

    # ---- sockets first (they do not need coq); the model is built before the proofs so that the correspondence run
    #      (coqc on generated files, no lock needed once model/Conn.vo is up to date) overlaps with the proof check
    pool = concurrent.futures.ThreadPoolExecutor(max_workers=max(2, min(8, vlib.NCPU)))
    hfut = None
    if "harness" not in fails:
        hfut = pool.submit(vlib.harness, AREA, [run.tier], run.seed, 3000 if run.tier == "thorough" else 600)
    with vlib.Lock():
        model_ok, mlog = vlib.coq_make(["model/Conn.vo", "model/Hex.vo"])
    if not model_ok:
        broken.append("model/Conn.v does not build: " + mlog[-500:])

    findings = []       # failing inputs on the implementation
    results = []
    if hfut is not None:
        rc, out, err = hfut.result()
        begun = None
        for line in out.split("\n"):
            if not line.strip():
                continue
            try:
                d = json.loads(line)
            except ValueError:
                continue
            if d["kind"] == "begin":
                begun = d["replay"]
            elif d["kind"] == "end":
                begun = None
                results.append(d)
        if rc != 0:
            tail = err.strip()[-1500:]
            if begun is not None:
                findings.append({"kind": "crash", "class": "process-crash", "replay": begun,
                                 "what": "the harness process died (rc=%s) during session %s: %s" % (rc, begun.get("id"), tail)})
            else:
                broken.append("harness conn failed rc=%s: %s" % (rc, tail))

    # ---- the property's own predicate on the implementation
    evaluations = 0
    nontrivial = set()
    dist = {}
    samples = []
    observations = {"startup_response_compressed": 0, "oversize_send_refused": None, "oversize_response_closes_connection": None,
                    "lowercase_compression_name_answered": None,
                    "v5_cannot_send_envelope_above_one_segment": None,   # limitation (no splitting on send); outside C15's quantifier ("on receive")
                    "dual_stack_listener_bind_ok": None}                 # precondition of any exchange, not a statement of C15
    startup_names = []      # (session id, bytes of the COMPRESSION value sent, observed class 0 none / 1 lz4 / 2 snappy / 3 no compressor: connection ended)
    corr = []
    bare_sessions = bare_envelopes = 0
    for d in results:
        r, rep = d["result"], d["replay"]
        key = "%s v%s %s" % (r["mode"], r["version"], r["compression"])
        dist[key] = dist.get(key, 0) + 1
        evaluations += r["frames"] + r["segments"]
        cls = (rep.get("script") or {}).get("class", "")
        if r["frames"] > 0 and (r["max_envelope"] > 65535 or r["segments"] > 0 or r["compression"] != "NONE"):
            nontrivial.add((r["mode"], r["version"], r["compression"], r["auth"], cls, r["id"].split("-")[-1] if cls else ""))
        if r["obs"].get("startup_response_compressed"):
            observations["startup_response_compressed"] += 1
        spell = (rep.get("script") or {}).get("startup_compression") if r["mode"] == "rawclient" else None
        if spell:
            answered = not any(f.get("class") == "startup-case" for f in r["failures"] or [])
            observations["lowercase_compression_name_answered"] = answered and observations["lowercase_compression_name_answered"] is not False
            flagged = bool(r["obs"].get("startup_response_compressed"))
            code = {"NONE": 0, "LZ4": 1, "SNAPPY": 2}.get(r["compression"], -1)
            if not answered:
                code = 3
            elif flagged != (code != 0) or any(f.get("class") not in ("v5-handshake-envelope-compressed",) for f in r["failures"] or []):
                code = -1           # answered, but the exchange that followed did not work as under that algorithm
            startup_names.append((r["id"], list(spell.encode("utf-8")), code))
        if r["mode"] == "unknowncomp":
            o = r["obs"]
            code = 3 if (not o.get("startup_answered") and o.get("connection_ended")) else \
                (-2 if o.get("startup_response_compressed") else 0) if o.get("startup_answered") else -1   # -2: some compressor (1 or 2)
            startup_names.append((r["id"], list(r["compression"].encode("utf-8")), code))
            observations.setdefault("unknown_compression_name", {})[r["compression"]] = {k: o.get(k) for k in ("startup_answered", "startup_response_compressed", "connection_ended")}
        if r["mode"] == "dualstack":
            observations["dual_stack_listener_bind_ok"] = r["obs"].get("bind_ok")
        if r["mode"] == "managed":
            observations.setdefault("managed_stream_ids_sequential_requests_answered", {})["v%d" % r["version"]] = r["obs"].get("answered")
        if r["mode"] == "oversize":
            o = r["obs"]
            refused = (not o.get("delivered")) and bool(o.get("client_closed")) and bool(o.get("server_closed"))
            observations["oversize_send_refused" if o.get("dir") == "request" else "oversize_response_closes_connection"] = refused
            observations["v5_cannot_send_envelope_above_one_segment"] = not o.get("delivered") and observations["v5_cannot_send_envelope_above_one_segment"] is not False
            if o.get("delivered"):
                broken.append("correspondence: the model says an envelope above 131071 bytes cannot be sent in v5 (C15_tx_modern_large_refused); "
                              "the implementation delivered it (%s)" % r["id"])
        for f in r["failures"] or []:
            if f.get("class") == "harness":
                broken.append("harness: session %s: %s" % (r["id"], f["what"]))
                continue
            fi = {"kind": "session", "class": f.get("class", ""), "mode": r["mode"], "version": r["version"],
                  "compression": r["compression"], "auth": r["auth"], "what": "%s: %s" % (r["id"], f["what"]), "replay": rep}
            if f.get("detail"):
                fi["detail"] = f["detail"]      # which envelope, where in which segment of the replay's plan
            findings.append(fi)
        if r.get("corr"):
            corr.append((r["id"], r["corr"], rep))
        if cls == "empty-tail":
            bare_sessions += 1
            bare_envelopes += sum(1 for sp in (rep.get("script") or {}).get("specs", []) if sp.get("kind") in ("options", "ready"))
        if len(samples) < 5 and r["mode"] in ("rawclient", "rawserver") and r["segments"] > 2 and (len(samples) < 3 or cls == "empty-tail"):
            samples.append({"session": r["id"], "script": rep, "frames": r["frames"], "segments": r["segments"], "max_envelope": r["max_envelope"]})

    # ---- correspondence: the same scripts through the model (vm_compute inside coqc), sharded; runs while the proofs are checked
    compared = 0
    texts, futs = [], []
    if corr and model_ok:
        shards = [[] for _ in range(min(8, vlib.NCPU, len(corr)))]
        weights = [0] * len(shards)
        for i, (sid, c, rep) in sorted(enumerate(corr), key=lambda x: -sum(e["len"] for e in x[1][1]["envs"])):
            k = weights.index(min(weights))
            shards[k].append((i, c))
            weights[k] += sum(e["len"] for e in c["envs"]) + sum(e["len"] for e in (c.get("tx_frames") or []))
        for k, sh in enumerate(shards):
            extra = ""
            if k == 0 and startup_names:
                extra = "Definition startup_codes := Eval vm_compute in map (fun n => compr_code (compr_of_option n)) [%s].\nPrint startup_codes.\n" % "; ".join(
                    "[" + "; ".join(str(x) for x in n) + "]" for _, n, _ in startup_names)
            texts.append(("Cases_C15_%d" % k, HEADER + "".join(case_text("c%d" % i, c) for i, c in sh) + extra))
        futs = [pool.submit(vlib.coq_eval, n, t, 2400) for n, t in texts]
    elif corr:
        broken.append("correspondence not run: the model does not build")

    # ---- proofs
    with vlib.Lock():
        pr = vlib.coq_prop("C15")
    run.add_proof(pr)
    if not pr["ok"]:
        broken.append("props/C15.v or a dependency no longer checks: %s %s" % (pr["failed_at"], pr["errors"]))
    run.coverage["trusted_base"] += [
        "coq/model/Conn.v: hand model of client/client.go and client/server.go framing, faithful as far as the correspondence run compares it",
        "NOT modelled, exercised only: TCP, partial reads, deadlines, goroutine hand-off (channels incoming/outgoing, in-flight handler), SendRaw",
        "C15_modern_delivery_frames / C15_legacy_delivery_frames are stated over model/MsgCodec.v (per-message laws = FrameFinal.H_rt_concrete, "
        "H_len_concrete); with LZ4: SegmentProofs.comp_contract (C08) on every payload; compressed legacy frames: FrameProofs.comp_lossless",
        "third-party compressors pierrec/lz4 and golang/snappy (known finding lz4-offset-65536 of C08: payload generators keep away from it)",
    ]

    if futs:
        values = {}
        for (n, t), fu in zip(texts, futs):
            rc, out = fu.result()
            if rc != 0:
                broken.append("correspondence file %s does not evaluate: %s" % (n, out[-600:]))
            values.update(parse_prints(out))
        if startup_names:
            model_codes = values.get("startup_codes")
            if not isinstance(model_codes, list) or len(model_codes) != len(startup_names):
                broken.append("correspondence: the model's reading of the STARTUP compression names did not evaluate: %r" % (model_codes,))
            else:
                for (sid, name, code), mc in zip(startup_names, model_codes):
                    compared += 1
                    if not (code == mc or (code == -2 and mc in (1, 2))):
                        broken.append("correspondence: session %s: STARTUP COMPRESSION %r: the model (Conn.compr_of_option, 0 none / 1 lz4 / 2 snappy / 3 no "
                                      "compressor) says %d, the implementation behaved as %d (-1: answered but the exchange did not work, -2: some compressor)" % (
                                          sid, bytes(name).decode("utf-8", "replace"), mc, code))
        for i, (sid, c, rep) in enumerate(corr):
            bad = compare(c, values.get("c%d_rx" % i), values.get("c%d_tx" % i))
            compared += 1
            for b in bad:
                broken.append("correspondence: session %s: %s" % (sid, b))
                if c["conforming"]:
                    findings.append({"kind": "correspondence", "class": "model-code-disagreement", "what": "%s: %s" % (sid, b), "replay": rep})

    run.coverage["evaluations"] = evaluations
    run.coverage["distinct_nontrivial"] = len(nontrivial)
    run.coverage["traces_validated_against_impl"] = compared
    run.coverage["rule"] = (
        "sessions on 127.0.0.1: loopback = real client and real server, every version x allowed compression (quick: authentication alternating, "
        "thorough: both), requests of 8 kinds and sizes 0..~200 KB (legacy; thorough ~1 MB) / ~100 KB (v5) with an echoing server, equality up to "
        "nil/empty checked on both sides; rawclient / rawserver = a peer written on the frame and segment codecs against the real server / real "
        "client with seeded segmentations (1..k envelopes per self-contained segment, one envelope of a few hundred KiB cut at seeded points, maximal "
        "parts, small envelopes cut into many parts, two-part splits at chosen (thorough: every) split point including cuts inside the 9-byte "
        "header, a header spread over many parts with zero-length parts; envelopes that are a bare 9-byte header with an empty body - OPTIONS towards "
        "the server, READY towards the client - first, in the middle, last and alone in self-contained segments), every envelope sent must be handed "
        "to the user exactly once and in the order sent (count and order by stream id; the script ends with an envelope that has a body, so the verdict "
        "does not wait on a timeout); STARTUP with the compression name in lower / mixed case (v3, v4, v5) followed by a compressed exchange; bodies "
        "longer than their message needs (spare bytes after SUPPORTED / READY / RESULT / ERROR / EVENT and after requests, legacy framing and inside v5 "
        "segments, cut over segments, each followed by further envelopes); a v5 envelope above one segment sent by the client / by the server: the "
        "request must fail and BOTH connection ends must be closed; 300 strictly sequential requests with managed stream ids (v2, v3); the unframed "
        "response to STARTUP in v5 read byte for byte as the specification says (compression flag ignored); chunked writes, and the v5 bytes written "
        "by the real side checked (handshake unframed, every segment decodes, envelopes inside have the compression flag clear); evaluations = "
        "envelopes + segments exchanged; non-trivial = a distinct (mode, version, compression, authentication, script class) session that carried an "
        "envelope above 65535 bytes, or segments, or a negotiated compression; traces validated = v5 raw sessions re-evaluated by the model "
        "(receive machine on the peer's segmentation and transmit function on the real side's frames) and compared on payload CRCs, delivered "
        "(stream, opcode, body length), outcome and final accumulator")
    run.coverage["samples"] = samples or [{"session": r["result"]["id"], "script": r["replay"]} for r in results[:2]]
    run.coverage["exhaustive"] = False
    run.coverage["input_distribution"] = dist
    run.coverage["observations"] = observations
    observations["bare_header_sessions"] = bare_sessions
    observations["bare_header_envelopes"] = bare_envelopes
    run.note("sessions: %d, envelopes+segments exchanged: %d, model re-evaluations: %d, v5/legacy STARTUP responses sent compressed by the server: %d, "
             "v5 send above one segment: request refused and both ends closed: %s, response: %s; lower/mixed-case compression names answered: %s" % (
                 len(results), evaluations, compared, observations["startup_response_compressed"], observations["oversize_send_refused"],
                 observations["oversize_response_closes_connection"], observations["lowercase_compression_name_answered"]))

    if run.tier == "thorough" and pr["ok"]:
        rc, out = vlib.coqchk("C15")
        if rc != 0:
            broken.append("coqchk C15 failed: " + out[-400:])
        else:
            run.coverage["trusted_base"].append("coqchk -silent -o GCNP.props.C15: " + " ".join(out.split())[-300:])

    # ---- verdict
    known = vlib.known_findings("C15") + [e for e in vlib.known_findings("C08") if (e.get("match") or {}).get("class") == "lz4-offset-65536"]
    reported = set()
    # the most specific failing inputs first: a raw-peer session that names the envelope and its place in the segmentation, then other
    # sessions, then model/code disagreements, then a crash / timeout of the harness process
    # (failures of the two classes that are recorded as known findings come last should their lines be missing from known_findings.jsonl)
    findings.sort(key=lambda f: (5 if f.get("class") in KNOWN_CLASSES else -1 if f.get("class") == "wire-format" and f["kind"] == "session" else 0 if f.get("detail") else
                                 1 if f["kind"] == "session" and f.get("mode") in ("rawclient", "rawserver") else
                                 2 if f["kind"] == "session" else 3 if f["kind"] == "correspondence" else 4))

    def known_entry(f):
        return next((e for e in known if e.get("match") and all(f.get(a) == b or (a == "algorithm") for a, b in e["match"].items())), None)
    for f in findings:          # one KNOWN-FINDING line per listed finding, whatever else the run reports
        k = known_entry(f)
        if k and k["what"] not in reported:
            reported.add(k["what"])
            run.known(k.get("what", f["what"]))
    for f in findings:
        if known_entry(f):
            continue
        else:
            run.violation({"property": "C15", "failing_input": {x: y for x, y in f.items() if x != "replay"}, "replay": f.get("replay"),
                           "how_to_replay": "build/harness-conn replay <this file>  (re-runs the session: version, compression, authentication, "
                                            "envelope kinds and sizes, segmentation = replay.script.plan: one entry per segment, self-contained or not, "
                                            "payload = the slices [envelope index, from, to]; the harness appends one more segment holding the envelope "
                                            "that ends the script)",
                           "broken": broken})
            if len(run.violations) >= 5:
                break
    if broken and not run.violations:
        run.violation({"property": "C15", "broken": broken,
                       "note": "a proof obligation, the build or the model/code correspondence no longer checks and the search found no failing input"},
                      no_input=True)
    pool.shutdown(wait=False)
