"""C19 - declared constants and validity checks agree; capability tables match specs."""
import json
import os

import vlib
from vlib import zlit, coq_str

UNITS = "constants"

MANIFEST = {
    "text": ("Theorems over Gallina definitions regenerated from primitive/constants.go and util.go on every run: every declared constant is accepted "
             "and specifically named; each validity check accepts no undeclared value for EVERY integer / string (structural proof, not enumeration); "
             "opcodes are exactly one of request/response; Check* helpers follow the predicates; capability predicates equal hand-transcribed "
             "specification tables on the six supported versions. The translator's output is compared with the compiled code on the complete 8/16-bit "
             "domains and sampled 32-bit/string domains, and the property's predicate is evaluated directly on the implementation."),
    "technique": "Rocq proof over go2coq-regenerated definitions + model/code correspondence",
    "design_ref": "3 C19",
    "note": "coq/spec/SpecTables.v is a human transcription of specs/*.spec.",
}


def lit(kind, v):
    return zlit(v) if kind == "int" else coq_str(v)


def biglist(items, chunk=1000):
    """A Coq list literal; long ones are cut into ++-joined pieces (a literal of 10^5 conses overflows coqc's stack)."""
    items = list(items)
    if len(items) <= chunk:
        return "[%s]" % "; ".join(items)
    return "(" + " ++ ".join("[%s]" % "; ".join(items[i:i + chunk]) for i in range(0, len(items), chunk)) + ")"


def check(run):
    fails = vlib.standard_prelude(run, UNITS, "c19")
    broken = []          # names of ties / theorems that no longer check
    if "forbidden" in fails:
        broken.append("forbidden declarations in the development: %s" % fails["forbidden"])
    if "go2coq" in fails:
        broken.append("translation of primitive/constants.go failed: " + fails["go2coq"].strip()[-600:])
    if "harness" in fails:
        broken.append("harness does not build against /repo: " + fails["harness"].strip()[-600:])

    # ---- proofs over the regenerated file
    with vlib.Lock():
        pr = vlib.coq_prop("C19")
    run.add_proof(pr)
    if run.tier == "thorough" and pr["ok"]:
        import framecommon
        framecommon.thorough_coqchk(run, "C19", broken)
    if not pr["ok"]:
        broken.append("props/C19.v or a dependency no longer checks: %s %s" % (pr["failed_at"], pr["errors"]))
    run.coverage["trusted_base"].append("coq/spec/SpecTables.v: hand transcription of the feature tables of specs/*.spec")

    # ---- implementation observables
    recs = []
    if "harness" not in fails:
        table = os.path.join(vlib.COQ, "gen", "constants_table.json")
        args = [table] + (["thorough"] if run.tier == "thorough" else [])
        rc, out, err = vlib.harness("c19", args, run.seed)
        if rc != 0:
            broken.append("harness c19 failed rc=%s: %s" % (rc, err[-400:]))
        else:
            recs = [json.loads(l) for l in out.split("\n") if l.strip()]
    try:
        table = json.load(open(os.path.join(vlib.COQ, "gen", "constants_table.json")))
    except Exception:
        table = []

    findings = []        # concrete failing inputs on the implementation
    domains = {r["type"]: r for r in recs if r["kind"] == "domain"}
    meth = {}
    for r in recs:
        if r["kind"] == "method":
            meth[(r["type"], r["method"], r.get("arg"))] = r
        elif r["kind"] in ("unregistered", "nomethod"):
            broken.append("harness cannot reach %s (%s)" % (r.get("type"), r["kind"]))

    # ---- (a) the property's own predicate, evaluated on the implementation
    evaluations = 0
    nontrivial = set()
    for t in table:
        name = t["name"]
        declared = {c[1]: c[0] for c in t["consts"]}
        vrec = meth.get((name, "IsValid", None)) or meth.get((name, "IsSupported", None))
        dom = domains.get(name)
        if vrec is not None and dom is not None:
            pos = set(vrec["positive"])
            evaluations += dom["size"]
            for v, cname in declared.items():
                nontrivial.add((name, v))
                if v not in pos:
                    findings.append({"kind": "declared-constant-rejected", "type": name, "constant": cname, "value": v,
                                     "what": "%s(%s).%s() = false" % (name, v, vrec["method"])})
            for v in pos:
                if v not in declared:
                    findings.append({"kind": "undeclared-value-accepted", "type": name, "value": v,
                                     "what": "%s(%s).%s() = true but no such constant is declared" % (name, v, vrec["method"])})
        srec = meth.get((name, "String", None))
        if srec is not None:
            specific = set(srec["positive"])
            for v, cname in declared.items():
                if v not in specific:
                    findings.append({"kind": "declared-constant-unnamed", "type": name, "constant": cname, "value": v,
                                     "what": "%s(%s).String() is the fallback name" % (name, v)})
    # opcodes: exactly one of request / response
    if ("OpCode", "IsValid", None) in meth:
        val = set(meth[("OpCode", "IsValid", None)]["positive"])
        req = set(meth.get(("OpCode", "IsRequest", None), {"positive": []})["positive"])
        resp = set(meth.get(("OpCode", "IsResponse", None), {"positive": []})["positive"])
        for v in sorted(val | req | resp, key=int):
            if (v in val) != ((v in req) != (v in resp)) or (v in req and v in resp):
                findings.append({"kind": "opcode-classification", "value": v, "valid": v in val, "request": v in req, "response": v in resp,
                                 "what": "OpCode(%s): valid=%s request=%s response=%s" % (v, v in val, v in req, v in resp)})
    # version classes over the whole 8-bit domain: OSS = {2,3,4,5}, DSE = {0x41,0x42}, supported = their union, no beta version
    def vset(m):
        r = meth.get(("ProtocolVersion", m, None))
        return None if r is None else set(int(x) for x in r["positive"])
    oss, dse, sup, beta = vset("IsOss"), vset("IsDse"), vset("IsSupported"), vset("IsBeta")
    for nm, got, want in (("IsOss", oss, {2, 3, 4, 5}), ("IsDse", dse, {65, 66}), ("IsSupported", sup, {2, 3, 4, 5, 65, 66}), ("IsBeta", beta, set())):
        if got is None:
            continue
        for v in sorted(got ^ want):
            findings.append({"kind": "version-class", "method": nm, "value": v, "observed": v in got,
                             "what": "ProtocolVersion(%d).%s() = %s; the specifications define versions 2,3,4,5 (OSS) and 0x41,0x42 (DSE) only" % (v, nm, v in got)})
    # Check* helpers follow the predicates
    chk_pred = {"CheckSupportedProtocolVersion": ("ProtocolVersion", "IsSupported"), "CheckDseProtocolVersion": ("ProtocolVersion", "IsDse"),
                "CheckValidOpCode": ("OpCode", "IsValid"), "CheckRequestOpCode": ("OpCode", "IsRequest"), "CheckResponseOpCode": ("OpCode", "IsResponse"),
                "CheckValidConsistencyLevel": ("ConsistencyLevel", "IsValid"), "CheckSerialConsistencyLevel": ("ConsistencyLevel", "IsSerial"),
                "CheckValidEventType": ("EventType", "IsValid"), "CheckValidWriteType": ("WriteType", "IsValid"), "CheckValidBatchType": ("BatchType", "IsValid"),
                "CheckValidDataTypeCode": ("DataTypeCode", "IsValid"), "CheckValidSchemaChangeType": ("SchemaChangeType", "IsValid"),
                "CheckValidSchemaChangeTarget": ("SchemaChangeTarget", "IsValid", "SupportsSchemaChangeTarget"),
                "CheckValidStatusChangeType": ("StatusChangeType", "IsValid"),
                "CheckValidTopologyChangeType": ("TopologyChangeType", "IsValid", "SupportsTopologyChangeType"),
                "CheckValidResultType": ("ResultType", "IsValid"),
                "CheckValidDseRevisionType": ("DseRevisionType", "IsValid", "SupportsDseRevisionType"),
                "CheckValidFailureCode": ("FailureCode", "IsValid")}
    chkdom = {r["name"]: r["values"] for r in recs if r["kind"] == "checkdomain"}
    checkparams = {r["name"]: r["params"] for r in recs if r["kind"] == "check"}
    for r in recs:
        if r["kind"] != "check" or r["name"] not in chk_pred:
            continue
        spec = chk_pred[r["name"]]
        p = meth.get((spec[0], spec[1], None))
        if p is None:
            continue
        ppos = set(p["positive"])
        pos = set(r["positive"])
        for x in chkdom.get(r["name"], []):
            expect = x in ppos
            if len(spec) == 3 and expect:
                sup = meth.get(("ProtocolVersion", spec[2], x))
                expect = sup is not None and r.get("arg") in set(sup["positive"])
            evaluations += 1
            if expect != (x in pos):
                findings.append({"kind": "check-helper", "helper": r["name"], "input": x, "version": r.get("arg"),
                                 "what": "%s(%s%s) error=%s but predicate says %s" % (r["name"], x, "," + r["arg"] if r.get("arg") else "", x not in pos, expect)})

    # ---- (b) correspondence: regenerated Gallina functions vs compiled Go on the same inputs
    corr_cases = 0
    mism = None
    gen_ok = False
    if "go2coq" not in fails:
        with vlib.Lock():
            gen_ok, _ = vlib.coq_make(["gen/Constants_gen.vo"])
    if recs and gen_ok:
        lines = ["From Coq Require Import ZArith List String Bool.",
                 "From GCNP Require Import base.GoInt base.CodeTypes gen.Constants_gen.",
                 "Import ListNotations. Open Scope Z_scope.",
                 "Fixpoint zrange (n : nat) (from : Z) : list Z := match n with O => [] | S k => from :: zrange k (from + 1) end.",
                 "Fixpoint zl_eqb (a b : list Z) : bool := match a, b with [], [] => true | x :: a', y :: b' => Z.eqb x y && zl_eqb a' b' | _, _ => false end.",
                 "Fixpoint sl_eqb (a b : list string) : bool := match a, b with [], [] => true | x :: a', y :: b' => String.eqb x y && sl_eqb a' b' | _, _ => false end."]
        tk = {t["name"]: t["kind"] for t in table}
        for name, d in domains.items():
            if d["exhaustive"]:
                lines.append("Definition dom_%s : list Z := zrange (Z.to_nat %d) 0." % (name, d["size"]))
            else:
                ty = "Z" if d["tkind"] == "int" else "string"
                lines.append("Definition dom_%s : list %s := %s." % (name, ty, biglist(lit(d["tkind"], v) for v in d["values"])))
        cases = []
        for (tname, mname, arg), r in sorted(meth.items(), key=lambda kv: (kv[0][0], kv[0][1], str(kv[0][2]))):
            kind = tk[tname]
            eqb = "zl_eqb" if kind == "int" else "sl_eqb"
            dom = "dom_%s" % tname
            if r["first"] < domains[tname]["size"]:
                dom = "(firstn %d dom_%s)" % (r["first"], tname)
            call = "%s x" % r["coq"]
            if arg is not None:
                call += " " + lit(tk[r["argtype"]], arg)
            pred = call if r["result"] == "bool" else "negb (str_contains_q (%s))" % call
            cid = "%s.%s%s" % (tname, mname, "(" + arg + ")" if arg is not None else "")
            cases.append('(%s, %s (filter (fun x => %s) %s) %s)' % (coq_str(cid), eqb, pred, dom, biglist(lit(kind, v) for v in r["positive"])))
            corr_cases += r["first"]
        for n, vals in chkdom.items():
            k0 = tk[checkparams[n][0]]
            lines.append("Definition cdom_%s : list %s := %s." % (n, "Z" if k0 == "int" else "string", biglist(lit(k0, v) for v in vals)))
        for r in recs:
            if r["kind"] != "check":
                continue
            k0 = tk[r["params"][0]]
            eqb = "zl_eqb" if k0 == "int" else "sl_eqb"
            call = "%s x" % r["name"]
            if r.get("arg") is not None:
                call += " " + lit(tk[r["params"][1]], r["arg"])
            cid = "%s%s" % (r["name"], "(," + r["arg"] + ")" if r.get("arg") else "")
            cases.append('(%s, %s (filter (fun x => is_ok (%s)) cdom_%s) %s)' % (
                coq_str(cid), eqb, call, r["name"], biglist(lit(k0, v) for v in r["positive"])))
            corr_cases += len(chkdom[r["name"]])
        # the cases are independent: evaluate them in parallel shards (the thorough tier has millions of evaluations)
        from concurrent.futures import ThreadPoolExecutor
        nshard = 1 if len(cases) < 40 or run.tier == "quick" else 8
        shards = [cases[i::nshard] for i in range(nshard)]

        def one(i):
            ls = list(lines)
            ls.append("Definition cases : list (string * bool) := [\n  %s]." % ";\n  ".join(shards[i]))
            ls.append("Definition mism := Eval vm_compute in map fst (filter (fun c => negb (snd c)) cases).")
            ls.append("Print mism.")
            return vlib.coq_eval("Cases_C19" if nshard == 1 else "Cases_C19_%d" % i, "\n".join(ls) + "\n", timeout=3000)

        with ThreadPoolExecutor(max_workers=min(nshard, 4)) as ex:      # each shard needs several GB
            results = list(ex.map(one, range(nshard)))
        mism = []
        for rc, out in results:
            flat = " ".join(out.split())
            if rc != 0:
                broken.append("correspondence file for C19 does not evaluate: " + out[-500:])
                mism = None
                break
            if "mism = []" not in flat:
                mism.append(flat)
                broken.append("correspondence: regenerated Gallina definitions disagree with the compiled code on: " + flat[:600])
    run.coverage["evaluations"] = evaluations + corr_cases
    run.coverage["traces_validated_against_impl"] = corr_cases
    run.coverage["distinct_nontrivial"] = len(nontrivial)
    run.coverage["rule"] = ("implementation: every method of every code type of primitive/constants.go evaluated on the complete 8/16-bit domain, "
                            "and for 32-bit and string types on declared constants, neighbours, powers of two, seeded random values and near-miss strings; "
                            "non-trivial = a distinct (type, declared constant) pair whose acceptance and name were observed on the implementation; "
                            "correspondence = the same inputs through the regenerated Gallina functions inside coqc (vm_compute)")
    run.coverage["samples"] = [{"type": k[0], "method": k[1], "arg": k[2], "accepted": v["positive"][:12]} for k, v in list(meth.items())[:6]]
    run.coverage["exhaustive"] = False
    run.coverage["input_distribution"] = {n: {"size": d["size"], "exhaustive": d["exhaustive"]} for n, d in domains.items()}

    # ---- capability tables against the specification: name the (predicate, argument, version) that disagrees
    if "go2coq" not in fails:
        with vlib.Lock():
            okm, _ = vlib.coq_make(["model/Capability.vo"])
        rc, out = vlib.coq_eval("Cap_C19", vlib.EVAL_HEADER + "From GCNP Require Import model.Capability.\nDefinition f := Eval vm_compute in capability_disagreements.\nPrint f.\n")
        flat = " ".join(out.split())
        if rc != 0 or not okm:
            broken.append("model/Capability.v does not evaluate: " + flat[-300:])
        elif "f = []" not in flat:
            import re
            for mname, arg, vs in re.findall(r'\("(\w+)", "([^"]*)", \[([0-9; ]*)\]\)', flat):
                for v in [x.strip() for x in vs.split(";") if x.strip()]:
                    rec = meth.get(("ProtocolVersion", mname, arg if arg else None))
                    impl = None if rec is None else (v in set(rec["positive"]))
                    findings.append({"kind": "capability-table", "predicate": mname, "argument": arg, "version": v, "implementation_says": impl,
                                     "what": "ProtocolVersion(%s).%s(%s) = %s on the implementation; specs/*.spec say otherwise (coq/spec/SpecTables.v)" % (v, mname, arg, impl)})

    # ---- verdict
    known = vlib.known_findings("C19")
    for f in findings:
        k = next((e for e in known if e.get("match") and all(f.get(a) == b for a, b in e["match"].items())), None)
        if k:
            run.known(k.get("what", f["what"]))
        else:
            run.violation({"property": "C19", "failing_input": f, "how_to_replay": "call the named method on the named value in package primitive",
                           "broken": broken})
    if broken and not run.violations:
        run.violation({"property": "C19", "broken": broken,
                       "note": "a proof obligation or the model/code correspondence no longer checks and the search found no failing input"},
                      no_input=True)
