"""C18 - codecs can be shared by concurrent goroutines (partial)."""
import json
import os
import re
import subprocess

import vlib

UNITS = "footprint"
AREA = "conc"

MANIFEST = {
    "text": ("PARTIAL. go2coq (unit footprint, on go/ssa of golang.org/x/tools v0.29.0) recomputes from the current source, for every encode / decode / "
             "convert / compress entry point of the frame, segment, message, datacodec and compression packages, the set of writes whose target is memory "
             "reachable from the shared codec object or from a package-level variable of the module (taint over the module's own function bodies). "
             "model/Footprint.v: operations as programs issuing atomic reads/writes of shared locations and steps on call-local state; "
             "proofs/FootprintProofs.v proves by induction over schedules that, if every operation's shared-write set is empty, then for every "
             "interleaving of any number of goroutines the shared store is unchanged, each call's result equals its sequential result, and no two "
             "accesses conflict (data-race freedom in the model); all_entrypoints_readonly = true is checked by vm_compute over the regenerated table "
             "(setters such as SetBodyCompressor are listed separately). "
             "NOT proved, and named: that a Go entry point with an empty extracted write set behaves as such an operation - the soundness of the "
             "extraction (module-own bodies only; a table of read-only standard-library contracts; no reflection/unsafe), third-party compressor "
             "internals (sync.Pool in pierrec/lz4, golang/snappy), implementations of the module's interfaces supplied by users, and the Go memory "
             "model. These are searched, not proved: M goroutines on shared codec instances under the race detector, every result compared with the "
             "sequential result."),
    "technique": "Rocq proof over go2coq-regenerated footprints (partial) + race-detector stress with result comparison",
    "design_ref": "3 C18, 4",
    "note": "partial by nature: schedules and the Go memory model are outside the model; see text",
    "partial": True,
}


def build_conc():
    """go build -race of the conc harness; falls back to a plain build when the race detector is unavailable."""
    src = os.path.join(vlib.ROOT, "tools", "harness")
    target = os.path.join(vlib.BUILD, "harness-" + AREA)
    try:
        with open(os.path.join(vlib.REPO, "go.sum")) as f, open(os.path.join(src, "go.sum"), "w") as g:
            g.write(f.read())
    except OSError:
        pass
    env = dict(vlib.GOENV, CGO_ENABLED="1")
    extra = []
    if os.path.realpath(vlib.REPO) != "/repo":
        # VERIF_REPO points at another tree (used to try edits without touching the shared /repo): same module, other replace target
        modfile = os.path.join(vlib.BUILD, "harness-%s.mod" % AREA)
        with open(os.path.join(src, "go.mod")) as f, open(modfile, "w") as g:
            g.write(f.read().replace("=> /repo", "=> " + os.path.realpath(vlib.REPO)))
        try:
            with open(os.path.join(vlib.REPO, "go.sum")) as f, open(modfile[:-4] + ".sum", "w") as g:
                g.write(f.read())
        except OSError:
            pass
        extra = ["-modfile=" + modfile]
    rc, out = vlib.sh(["go", "build", "-race", "-tags", "verif"] + extra + ["-o", target, "./cmd/" + AREA], cwd=src, env=env, timeout=1200)
    if rc == 0:
        return True, True, out
    rc2, out2 = vlib.sh(["go", "build", "-tags", "verif"] + extra + ["-o", target, "./cmd/" + AREA], cwd=src, env=vlib.GOENV, timeout=1200)
    return rc2 == 0, False, out + "\n" + out2


def run_conc(args, seed, timeout=3000):
    """Run build/harness-conc. Not through vlib.harness: the race detector's shadow memory needs an unlimited virtual address space."""
    env = dict(vlib.GOENV, VERIF_SEED=str(seed), GORACE="halt_on_error=0 exitcode=66")
    try:
        p = subprocess.run([os.path.join(vlib.BUILD, "harness-" + AREA)] + list(args), env=env, stdout=subprocess.PIPE, stderr=subprocess.PIPE,
                           timeout=timeout, text=True, errors="replace")
        return p.returncode, p.stdout, p.stderr
    except subprocess.TimeoutExpired:
        return 124, "", "timeout"


def parse_races(err):
    """Split the race detector's reports; return a list of {summary, repo_frames}."""
    reps = []
    for blk in re.split(r"^={18}$", err, flags=re.M):
        if "WARNING: DATA RACE" not in blk:
            continue
        frames = re.findall(r"^\s+(\S+)\n\s+(%s/[^\s:]+:\d+)" % re.escape(os.path.realpath(vlib.REPO)), blk, flags=re.M)
        first = re.search(r"^(Write|Read|Previous write|Previous read)[^\n]*\n\s+(\S+)\n\s+(\S+:\d+)", blk, flags=re.M)
        reps.append({"report": blk.strip()[:3000], "repo_frames": [("%s @ %s" % (f, os.path.relpath(p, os.path.realpath(vlib.REPO)))) for f, p in frames][:12],
                     "first_access": first.group(0).strip() if first else ""})
    return reps


def check(run):
    fails = vlib.standard_prelude(run, UNITS, None)
    broken = []
    if "forbidden" in fails:
        broken.append("forbidden declarations in the development: %s" % fails["forbidden"])
    if "go2coq" in fails:
        broken.append("footprint extraction failed: " + fails["go2coq"].strip()[-700:])
    with vlib.Lock():
        hok, race_on, hlog = build_conc()
    if not hok:
        broken.append("harness area conc does not build against /repo: " + hlog.strip()[-600:])
    if hok and not race_on:
        run.note("the race detector is unavailable in this environment (go build -race failed); relying on result comparison only")

    # ---- proofs over the regenerated table
    with vlib.Lock():
        pr = vlib.coq_prop("C18")
    run.add_proof(pr)
    if not pr["ok"]:
        broken.append("props/C18.v or a dependency no longer checks: %s %s" % (pr["failed_at"], pr["errors"]))
    run.coverage["trusted_base"] += [
        "PARTIAL: the Go memory model and goroutine scheduling are not modelled; the theorems are about model/Footprint.v's atomic-step machine",
        "PARTIAL: soundness of tools/go2coq/unit_footprint.go (taint analysis over go/ssa; module-own function bodies only; interface calls resolved to "
        "module-own implementations; no reflection / unsafe; table of standard-library calls taken as read-only: fmt/errors formatting, reflect.Type methods, "
        "io.Writer.Write's contract, math/big methods write their receiver only, time / net.IP / hash/crc32.Update readers)",
        "PARTIAL: third-party compressor internals (github.com/pierrec/lz4/v4 uses sync.Pool and internal hash tables; github.com/golang/snappy) and "
        "user-supplied implementations of frame.BodyCompressor / segment.PayloadCompressor / message.Codec are outside the extraction",
        "golang.org/x/tools v0.29.0 (go/packages, go/ssa) and the Go race detector (runtime/race, needs cgo)",
    ]

    # ---- the regenerated table: a non-empty write set is a concrete (static) failing input
    findings = []
    table = {"entrypoints": [], "setters": []}
    if "go2coq" not in fails:
        try:
            table = json.load(open(os.path.join(vlib.COQ, "gen", "footprint_table.json")))
        except Exception as e:
            broken.append("footprint table unreadable: %r" % e)
    seen = set()
    for e in table["entrypoints"]:
        for w in e.get("writes") or []:
            key = (w["kind"], w["target"], w["where"])
            if key in seen:
                continue
            seen.add(key)
            reached_from = sorted({x["name"] for x in table["entrypoints"] if any((y["kind"], y["target"], y["where"]) == key for y in x.get("writes") or [])})
            findings.append({"kind": "shared-write", "write": w["kind"], "target": w["target"], "where": w["where"], "in_function": w["in"],
                             "entrypoint": e["name"], "reached_from": reached_from[:30],
                             "what": "%s writes shared memory %s (%s at %s, in %s)" % (e["name"], w["target"], w["kind"], w["where"], w["in"])})
    if "go2coq" not in fails and len(table["entrypoints"]) == 0:
        broken.append("the footprint table has no entry point")

    # ---- search: goroutines on shared instances under the race detector, results compared with sequential runs
    summary = None
    races = []
    if hok:
        args = ["thorough"] if run.tier == "thorough" else []
        rc, out, err = run_conc(args, run.seed)
        for l in out.split("\n"):
            if l.strip().startswith("{"):
                try:
                    r = json.loads(l)
                    if r.get("kind") == "summary":
                        summary = r
                except ValueError:
                    pass
        races = parse_races(err)
        if rc not in (0, 66) or summary is None:
            broken.append("harness conc failed rc=%s: %s" % (rc, err[-500:]))
        if rc == 66 and not races:
            broken.append("harness conc exited with the race detector's code but no report could be parsed: " + err[-400:])
        seen_r = set()
        for rp in races:
            key = tuple(rp["repo_frames"][:2])
            if key in seen_r:
                continue
            seen_r.add(key)
            findings.append({"kind": "data-race", "repo_frames": rp["repo_frames"], "first_access": rp["first_access"], "report": rp["report"],
                             "seed": run.seed, "what": "data race reported by the race detector: " + "; ".join(rp["repo_frames"][:3])})
        for m in (summary or {}).get("mismatches") or []:
            key = (m["kind"], m["what"])
            if key in seen_r:
                continue
            seen_r.add(key)
            findings.append({"kind": "result-differs", "operation": m["kind"], "input": m["input"], "goroutine": m["goroutine"], "round": m["round"],
                             "expected": m["expected"], "observed": m["observed"], "seed": run.seed,
                             "what": "%s on %s: %s" % (m["kind"], m["input"], m["what"])})

    # ---- coverage: which receiver types of the table does the stress run exercise
    not_exercised = []
    if summary:
        ex = {t.split("/")[-1] for t in summary.get("exercised_types") or []}
        for rt in sorted({e["recv"] for e in table["entrypoints"]}):
            short = rt.split("/")[-1] if not rt.startswith("*") else "*" + rt[1:].split("/")[-1]
            if short not in ex:
                not_exercised.append(rt)
        if not_exercised:
            run.note("receiver types of the footprint table not exercised by the stress run: %s" % ", ".join(not_exercised))
    c = run.coverage
    c["evaluations"] = (summary or {}).get("executed_concurrently", 0) + (summary or {}).get("operations", 0) * 2
    c["traces_validated_against_impl"] = (summary or {}).get("executed_concurrently", 0)
    c["distinct_nontrivial"] = (summary or {}).get("operations", 0)
    c["rule"] = ("static: write sets of %d entry points recomputed from the SSA form of the current source (functions analysed per entry point are in "
                 "coq/gen/footprint_table.json); dynamic: M goroutines x R rounds, every goroutine runs its own generated frames / segments / values through the "
                 "SHARED codec instances in a random order, each result (bytes, outcome class, decoded structure) compared with the result of the same operation "
                 "run sequentially beforehand; non-trivial = a distinct generated (operation kind, input) pair; built with -race: %s"
                 % (len(table["entrypoints"]), race_on))
    c["samples"] = [{"entrypoint": e["name"], "functions_analysed": e["functions_analysed"], "reads": (e.get("reads") or [])[:5], "writes": e.get("writes") or []}
                    for e in table["entrypoints"][:120:24]]
    c["exhaustive"] = False
    c["input_distribution"] = {"entrypoints": len(table["entrypoints"]), "setters_listed_separately": [e["name"] for e in table["setters"]],
                               "race_detector": race_on, "goroutines": (summary or {}).get("goroutines"), "rounds": (summary or {}).get("rounds"),
                               "per_operation_kind": (summary or {}).get("per_kind"), "sequential_errors": (summary or {}).get("sequential_errors"),
                               "receiver_types_not_exercised": not_exercised, "race_reports": len(races)}
    c["partial"] = "schedules, the Go memory model, extraction soundness and third-party callees are outside the proof (see trusted_base)"
    if run.tier == "thorough":
        rc, out = vlib.coqchk("C18")
        c["coqchk"] = "ok" if rc == 0 else out[-300:]
        if rc != 0:
            broken.append("coqchk failed on props/C18: " + out[-300:])

    # ---- verdict
    known = vlib.known_findings("C18")
    per_kind = {}
    for f in findings:
        k = next((e for e in known if e.get("match") and all(f.get(a) == b for a, b in e["match"].items())), None)
        if k:
            run.known(k.get("what", f["what"]))
        elif per_kind.get(f["kind"], 0) < 4:      # one cause shows as many race reports / differing results: four of each kind are enough
            per_kind[f["kind"]] = per_kind.get(f["kind"], 0) + 1
            run.violation({"property": "C18", "failing_input": f, "broken": broken,
                           "how_to_replay": "static: /verif/build/go2coq -repo /repo -out coq/gen -units footprint and read coq/gen/footprint_table.json; "
                                            "dynamic: cd tools/harness && go build -race -tags verif -o ../../build/harness-conc ./cmd/conc && VERIF_SEED=%d ../../build/harness-conc" % run.seed})
    if broken and not run.violations:
        run.violation({"property": "C18", "broken": broken,
                       "note": "a proof obligation or the footprint extraction no longer checks and the search found no failing input"}, no_input=True)
