"""C07 - corrupted segments are rejected, never delivered."""
import collections

import vlib
import seglib

MANIFEST = {
    "text": ("Theorems over the Gallina model of segment/decode.go + crc/*.go with CRC parameters regenerated from the Go source on every run: "
             "CRC-24 is affine over GF(2) (induction) and no error pattern of weight 1..7 over the 24+24 / 40+24 header+checksum bits is undetected "
             "(exhaustive enumeration of all 23.2 M data patterns inside the kernel, with a soundness lemma for the enumerator), hence DecodeSegment "
             "of any such corruption of any header returns an error; the byte-wise seeded CRC-32 equals the bit-serial reflected LFSR; every single "
             "burst of at most 32 bits anywhere in payload||CRC-32 is rejected for payloads of ANY length (potential-function proof, no enumeration), "
             "every pair of flipped bits is rejected for payloads up to the 131071-byte maximum (order argument, 1 048 600 LFSR steps in the kernel); "
             "the payload checksum is verified before decompression. The decoder model is compared with the compiled code on damaged inputs and the "
             "property's predicate is evaluated on the implementation by corrupting real encoded segments."),
    "technique": "Rocq proof (induction, GF(2) linearity, kernel-checked exhaustive computation) + model/code correspondence + corruption of real segments",
    "design_ref": "3 C07",
    "note": "bit order of 'consecutive bits' is the order the reflected CRC consumes them (byte order, least significant bit first)",
}


def check(run):
    broken, findings = [], []
    fails = seglib.prelude(run, broken)

    with vlib.Lock():
        pr = vlib.coq_prop("C07", extra_targets=seglib.MODEL_TARGETS[:1])
    run.add_proof(pr)
    if not pr["ok"]:
        broken.append("props/C07.v or a dependency no longer checks (a changed CRC constant re-runs min-distance / order computations): %s %s" % (pr["failed_at"], pr["errors"]))
    run.coverage["trusted_base"] += [
        "coq/model/Segment.v, Crc.v: hand-written models of segment/decode.go and crc/*.go, faithful as far as the correspondence run compares them",
        "hash/crc32 (table driven) agrees with the shift-register definition of the reflected CRC-32 used by the model (exercised by the correspondence run)",
    ]

    # ---- (a) the property's predicate on the implementation: corrupt real encoded segments
    recs = seglib.run_harness(run, "c07", broken) if "harness" not in fails else []
    tried, sweeps = {}, []
    for r in recs:
        if r["kind"] == "accepted":
            findings.append({"kind": "corruption-accepted", "class": r["class"], "payload": r["desc"], "self_contained": r["sc"], "compressor": r["comp"],
                             "region": r["region"], "bit_positions": r["bit_positions"], "changed_bytes": r.get("changed_bytes"), "segment_len": r.get("segment_len"),
                             "segment_hex": r.get("segment_hex"), "corrupted_hex": r.get("corrupted_hex"),
                             "what": "DecodeSegment accepts a segment with bits %s of the %s flipped (%s, payload %s, %s, self-contained %s; damaged bytes %s)" % (
                                 r["bit_positions"], r["region"], r["class"], r["desc"], r["comp"], r["sc"],
                                 ["region byte %s: %s -> %s" % (c["region_byte_offset"], c["original"], c["corrupted"]) for c in (r.get("changed_bytes") or [])][:8])})
        elif r["kind"] == "c07_base_failed":
            broken.append("harness c07: base segment unusable: %s" % r)
        elif r["kind"] == "c07_summary":
            tried = r["tried"]
            sweeps = r.get("sweeps") or []
            if r["accepted"] > 50:
                run.note("%d accepted corruptions in all (first 50 listed)" % r["accepted"])
    if recs and not tried:
        broken.append("harness c07 produced no summary")
    if recs and tried and not any(w.get("decodes", 0) >= w.get("bytes_swept", 1) >= 65536 for w in sweeps):
        broken.append("harness c07 ran no position-exhaustive sweep of a payload of at least 64 KiB")

    # ---- (b) correspondence: decoder model vs implementation on damaged inputs (truncations, flips, hand-made headers)
    recs6 = seglib.run_harness(run, "c06", broken) if "harness" not in fails else []
    terms, idmap = [], {}
    for r in recs6:
        if r["kind"] != "raw":
            continue
        t = seglib.raw_case_term(r)
        if t is None:
            findings.append({"kind": "decoder-panic", "input_hex": r["hex"], "compressor": r["comp"], "what": "DecodeSegment panics on %s" % r["hex"][:80]})
            continue
        idmap[len(terms) + 1] = r
        terms.append((len(terms) + 1, t))
    if terms:
        with vlib.Lock():
            okm, log = vlib.coq_make(seglib.MODEL_TARGETS[:1])
        if not okm:
            broken.append("model/SegGen.v (or Crc.v / Segment.v / gen/Crc_gen.v) does not compile: " + log[-400:])
        else:
            ok, failing, err = seglib.eval_cases("Cases_C07", terms, shards=4)
            if not ok:
                broken.append("correspondence file for C07 does not evaluate: " + err)
            for i in failing:
                r = idmap[i]
                broken.append("correspondence: decoder model and implementation disagree on %s input %s -> %s" % (r["what"], r["hex"][:120], r["dec"]))
                if r["what"] == "flip1" and r["dec"]["class"] == "ok":
                    findings.append({"kind": "corruption-accepted", "class": "single", "corrupted_hex": r["hex"], "compressor": r["comp"],
                                     "what": "DecodeSegment accepts the single-bit corruption %s (%s)" % (r["hex"][:120], r["comp"])})
                else:
                    findings.append({"kind": "model-code-disagreement", "input_hex": r["hex"], "compressor": r["comp"], "implementation": r["dec"],
                                     "what": "DecodeSegment differs from the proved model on %s input %s" % (r["what"], r["hex"][:120])})

    ntried = sum(tried.values()) if tried else 0
    run.coverage["evaluations"] = ntried + len(terms)
    run.coverage["traces_validated_against_impl"] = len(terms)
    run.coverage["distinct_nontrivial"] = ntried
    run.coverage["rule"] = ("implementation: 13 real encoded segments (payload 0..131071 bytes, both flags, nil and LZ4 compressor); every single-bit flip of header+CRC-24 "
                            "and of short payloads+CRC-32 (sampled on long ones), pairs of flips in payload||CRC-32 (all pairs on short segments, sampled incl. closest and "
                            "farthest on long ones), bursts of 2..32 bits with random interior at random and trailing offsets, 1..4 damaged consecutive bytes; on every "
                            "transmitted payload of 64 KiB and more: all 8 flips, whole-byte and two-byte damage and 9/17/32-bit bursts at every power of two and every "
                            "multiple of 4096 bytes with neighbours (65535, 65536, 131070 ...), at the first and last payload bytes and in the CRC-32 field, and a "
                            "position-exhaustive sweep flipping one bit in EVERY byte of payload||CRC-32 of a 131071-byte payload (thorough: all 8 bits of every byte, every long base); header "
                            "patterns of weight 2..3 exhaustively and 4..7 sampled (thorough: ..4/5 exhaustively); non-trivial = a corrupted segment handed to DecodeSegment; "
                            "each must be rejected; correspondence = decoder model vs DecodeSegment on truncations, flips and hand-made headers inside coqc")
    run.coverage["samples"] = [{"class": k, "corruptions_tried": v} for k, v in sorted(tried.items())][:12]
    run.coverage["exhaustive"] = False
    run.coverage["position_exhaustive_sweeps"] = sweeps
    run.coverage["input_distribution"] = {"corruption_classes": tried, "decoder_inputs": dict(collections.Counter(r["what"] for r in recs6 if r["kind"] == "raw"))}

    if run.tier == "thorough" and pr["ok"]:
        rc, out = vlib.coqchk("C07", timeout=6000)
        run.coverage["checker_cmd"] += " ; coqchk -silent -o -Q coq GCNP GCNP.props.C07"
        if rc != 0:
            broken.append("coqchk failed on props/C07: " + out[-300:])

    seglib.finish(run, "C07", findings, broken,
                  "decode corrupted_hex with segment.NewCodec() / NewCodecWithCompression(lz4.Compressor{}) (or flip the listed bit positions, counted from the start of the region, "
                  "least significant bit of each byte first, in the segment built from the payload descriptor; region 'payload' = transmitted payload || CRC-32, i.e. "
                  "it starts after the 6-byte (nil compressor) or 8-byte (lz4) header+CRC-24; changed_bytes lists offset, original and corrupted value of each damaged byte): "
                  "./build/harness-seg c07 quick")
