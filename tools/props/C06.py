"""C06 - segment round trip and v5 framing layout."""
import collections

import vlib
import seglib
from seglib import PAT

MANIFEST = {
    "text": ("Theorems over the Gallina model of segment/encode.go + decode.go + crc/*.go (coq/model/Segment.v, Crc.v; numeric parameters regenerated "
             "from the Go source on every run): encode-then-decode returns payload, flag and consistent header lengths for EVERY payload of at most "
             "131071 bytes, with the nil compressor and with any compressor satisfying the stated contract, also when followed by arbitrary bytes; "
             "longer payloads are refused; the emitted bytes equal the layout transcribed from native_protocol_v5.spec section 2 (little-endian 3/5-byte "
             "header, 17-bit lengths, flag bit, textbook CRC-24 of the header bytes, payload as transmitted, seeded textbook CRC-32, fallback with uncompressed-length field 0; the code's checksum register machines are proved equal to the textbook forms). The model is "
             "compared with the compiled code on every run (checksums, encoded bytes, decoded segments, damaged inputs) and the property's predicate "
             "and an independent reference layout are evaluated directly on the implementation."),
    "technique": "Rocq proof over hand model with regenerated constants + model/code correspondence (vm_compute inside coqc)",
    "design_ref": "3 C06",
    "note": ("The LZ4 block functions are outside the model (contract hypotheses, see C08). coq/spec/SpecSegment.v is a human transcription of the "
             "spec and of Cassandra's checksum parameters."),
}


def weight(t):
    m = t[1].split()
    try:
        if m[0] == "seg_case":
            return 1 + int(m[4]) // 200 * (4 if m[3] in ("3", "5") else 1)
        if m[:2] == ["negb", "(seg_decodes"]:
            return 1 + int(m[5]) // 200 * (4 if m[4] in ("3", "5") else 1)
    except Exception:
        pass
    return 1


def check(run):
    broken, findings = [], []
    fails = seglib.prelude(run, broken)

    with vlib.Lock():
        pr = vlib.coq_prop("C06", extra_targets=seglib.MODEL_TARGETS[:1])
    run.add_proof(pr)
    if not pr["ok"]:
        broken.append("props/C06.v or a dependency no longer checks: %s %s" % (pr["failed_at"], pr["errors"]))
    run.coverage["trusted_base"] += [
        "coq/model/Segment.v, Crc.v: hand-written models of segment/*.go and crc/*.go, faithful as far as the correspondence run compares them",
        "coq/spec/SpecSegment.v: hand transcription of native_protocol_v5.spec section 2 and of the checksum parameters of Cassandra's Crc.java",
        "hash/crc32 (table driven) agrees with the shift-register definition of the reflected CRC-32 used by the model (exercised by the correspondence run)",
        "the payload compressor enters the theorems as a Section variable with the contract stated in coq/proofs/SegmentProofs.v (see C08)",
    ]

    recs = seglib.run_harness(run, "c06", broken) if "harness" not in fails else []
    kinds = collections.Counter(r["kind"] for r in recs)

    # ---- (a) the property's predicate and the independent reference, on the implementation
    nontrivial = set()
    evaluations = 0
    ratio_search = None
    for r in recs:
        k = r["kind"]
        if k == "seg" or k == "segx":
            evaluations += 1
            seglib.judge_segment(r, findings, nontrivial)
        elif k == "ratio_search":
            ratio_search = r
        elif k == "refuse":
            evaluations += 1
            if r["len"] > 131071 and (r["enc_ok"] or r["written"] != 0 or r["panic"]):
                findings.append({"kind": "oversized-payload-not-refused", "len": r["len"], "compressor": r["comp"], "pattern": r["pat"],
                                 "what": "EncodeSegment on %d bytes (%s): ok=%s, %d bytes written, panic=%r" % (r["len"], r["comp"], r["enc_ok"], r["written"], r["panic"])})
            if r["len"] <= 131071 and not r["enc_ok"]:
                findings.append({"kind": "encode-failed", "len": r["len"], "compressor": r["comp"], "what": "EncodeSegment refuses %d bytes" % r["len"]})
            nontrivial.add(("refuse", r["len"], r["comp"], r["pat"]))
        elif k == "ieee":
            evaluations += 1
            if r["crc"] != r["ref"]:
                findings.append({"kind": "crc32-differs-from-reference", "payload": r["desc"], "crc": r["crc"], "reference": r["ref"],
                                 "what": "ChecksumIEEE differs from the reflected CRC-32 over FA 2D 55 CA || payload"})

    if recs:
        # fail closed if the family "compressed size on and around the payload size" is not there
        deltas = {r["cmp_len"] - r["desc"]["len"] for r in recs if r["kind"] == "seg" and r["comp"] == "lz4" and r.get("enc_ok") and r["desc"]["len"] > 0}
        if not ratio_search or not {-1, 0, 1} <= deltas:
            broken.append("harness c06 ran no lz4 segment with compressed length = payload length - 1 / = / + 1 (search: %s, deltas seen: %s)" % (
                ratio_search, sorted(d for d in deltas if -2 <= d <= 2)))
    run.coverage["compressed_size_vs_payload_size_search"] = ratio_search

    # ---- (b) correspondence: model vs implementation on the same inputs
    terms, skipped = [], 0
    cid = 0
    idmap = {}
    if recs:
        for r in recs:
            t = None
            if r["kind"] == "seg":
                t = seglib.seg_case_term(r)
            elif r["kind"] == "raw":
                t = seglib.raw_case_term(r)
            elif r["kind"] == "koopman":
                t = "koopman_case %s %d %s" % (seglib.n(r["data"]), r["len"], seglib.n(r["crc"]))
            elif r["kind"] == "ieee":
                t = "ieee_case %d %d %d %s" % (PAT[r["desc"]["pat"]], r["desc"]["len"], r["desc"]["seed"], seglib.n(r["crc"]))
            elif r["kind"] == "ieee_hex":
                t = "ieee_hex_case %s %s" % (seglib.hx(r["hex"]), seglib.n(r["crc"]))
            elif r["kind"] == "refuse" and r["pat"] == "zero" and r["len"] in (131071, 131072, 200000):
                t = ("%s (refuse_case %s %d)" % ("" if r["len"] > 131071 else "negb", seglib.b(r["comp"] == "lz4"), r["len"]))
            else:
                continue
            if t is None:
                skipped += 1
                continue
            cid += 1
            idmap[cid] = r
            terms.append((cid, t))
        with vlib.Lock():
            okm, log = vlib.coq_make(seglib.MODEL_TARGETS[:1])
        if not okm:
            broken.append("model/SegGen.v (or Crc.v / Segment.v / gen/Crc_gen.v) does not compile: " + log[-400:])
        else:
            ok, failing, err = seglib.eval_cases("Cases_C06", terms, shards=6, weight=weight)
            if not ok:
                broken.append("correspondence file for C06 does not evaluate: " + err)
            for i in failing:
                r = idmap[i]
                slim = {k: v for k, v in r.items() if k not in ("full", "cmp_hex") or len(str(v)) < 400}
                broken.append("correspondence: model and implementation disagree on %s case %s" % (r["kind"], str(slim)[:700]))
                # a disagreement is itself a concrete input on which the code departs from the proved model
                findings.append({"kind": "model-code-disagreement", "case": slim,
                                 "what": "implementation output differs from the proved model on %s case %s" % (r["kind"], str(r.get("desc") or r.get("what") or r.get("data")))})
    run.coverage["evaluations"] = evaluations + len(terms)
    run.coverage["traces_validated_against_impl"] = len(terms)
    run.coverage["distinct_nontrivial"] = len(nontrivial)
    run.coverage["rule"] = ("implementation: EncodeSegment/DecodeSegment on payload descriptors (pattern x length x seed; lengths 0..1024 at every small boundary, "
                            "65536, 131070, 131071; payloads whose LZ4 block is exactly as long as / one byte shorter / one byte longer than the payload, found by a search at harness start; all-zero / repeated / ramp / periodic / pseudo-random / half-random; text-like, mixed and row-like content "
                            "through LZ4) x self-contained flag x {nil compressor, lz4.Compressor{}}; refusal at 131072 and above; damaged inputs for the decoder; "
                            "non-trivial = a distinct (payload, flag, compressor) whose round trip was observed, or a distinct refusal; "
                            "correspondence = the same descriptors expanded in Gallina and run through the model inside coqc (vm_compute), compared on "
                            "encoded bytes, header fields, checksums, decoded payload and unread bytes; skipped (not modellable) = %d" % skipped)
    run.coverage["samples"] = [{k: v for k, v in r.items() if k in ("desc", "sc", "comp", "total", "head", "trailer", "post", "dec")} for r in recs if r["kind"] == "seg"][:5]
    run.coverage["exhaustive"] = False
    run.coverage["input_distribution"] = dict(kinds)
    run.coverage["input_distribution"]["segment_lengths"] = dict(collections.Counter(
        ("0" if l == 0 else "1-16" if l <= 16 else "17-255" if l < 256 else "256-1024" if l <= 1024 else "1025-65535" if l < 65536 else "65536-131071")
        for l in [r["desc"]["len"] if r["kind"] == "seg" else r["len"] for r in recs if r["kind"] in ("seg", "segx")]))

    if run.tier == "thorough" and pr["ok"]:
        rc, out = vlib.coqchk("C06")
        run.coverage["checker_cmd"] += " ; coqchk -silent -o -Q coq GCNP GCNP.props.C06"
        if rc != 0:
            broken.append("coqchk failed on props/C06: " + out[-300:])

    seglib.finish(run, "C06", findings, broken,
                  "build the payload from the descriptor (tools/harness/cmd/seg expand/expandClass), EncodeSegment then DecodeSegment with the named compressor: ./build/harness-seg c06 quick")
