"""C14 - NULL is preserved and distinguishable in CQL value codecs."""
import cqlcommon as cc
import vlib

MANIFEST = {
    "text": ("Theorems over the hand-written model of datacodec: a nil source encodes to NULL for every type tree and version; NULL (and, except for the byte-string types, "
             "the empty value) decodes to NULL without error; NULL elements at every position of collections, tuples and UDT fields survive the round trip (induction on the "
             "type tree, any depth); protocol v2 produces no encoding for a value with a NULL at a collection element / map key / map value position at any nesting depth. "
             "Per Go type, on the implementation: every accepted nil-able source type (untyped nil, nil pointer to each accepted type, nil slice / map, pointer to nil "
             "slice / map) of every codec must encode to nil without error; NULL and empty input decoded into every accepted destination type pre-filled with a non-zero "
             "value must report wasNull, leave the zero value and raise no error; generated and directed values with NULLs inside containers must round-trip in v3+ and be "
             "refused in v2. Re-used destinations: a value with a NULL at each element / field / map-value position (and a NULL / empty whole value) is decoded into a "
             "variable of every container representation that already holds a non-NULL value there; nothing of the old value may survive (model-free predicate, and the "
             "Go-representation model on the same cases). The model is compared with the real code on the same cases inside coqc."),
    "technique": "Rocq proof over a hand-written model + model/code correspondence + directed evaluation of the NULL contract on every accepted Go type",
    "design_ref": "3 C14",
    "note": "The per-Go-type switches are evaluated on the implementation (harness `cql null`), not translated; the nil detection of the integer codecs' type switches is also C13's translated subject.",
}

STRING_TYPES = ("SAscii", "SVarchar", "SBlob", "SCustom")


def check(run):
    broken = []
    fails = cc.prelude(run, broken)
    with vlib.Lock():
        pr = vlib.coq_prop("C14")
    run.add_proof(pr)
    if not pr["ok"]:
        broken.append("props/C14.v or a dependency no longer checks: %s %s" % (pr["failed_at"], pr["errors"]))
    model_ok = cc.build_model(broken)
    recs = []
    if "harness" not in fails:
        n = 2000 if run.tier == "thorough" else 400
        for sub, args in (("null", []), ("directed", cc.directed_args(run.tier)), ("gen", [n]), ("reuse", [600 if run.tier == "thorough" else 200])):
            rc, rs, err = cc.harness_records(sub, args, run.seed)
            if rc != 0:
                broken.append("harness cql %s failed rc=%s: %s" % (sub, rc, err))
            recs += rs
    findings = []
    evaluations = 0
    nontrivial = set()
    ccases = []
    # ---- nil sources
    for r in recs:
        if r["kind"] == "nullenc":
            evaluations += 1
            nontrivial.add(("enc", r["type_coq"], r["go_type"]))
            if not (r["class"] == "ok" and r["is_nil"]):
                findings.append({"kind": "nil-source-not-null", "type_cql": r["type_cql"], "go_type": r["go_type"], "ver": r["ver"], "observed": r["class"], "err": r.get("err", "")[:300],
                                 "what": "%s.Encode(%s) v%d: %s%s, expected (nil, nil)" % (r["type_cql"], r["go_type"], r["ver"], r["class"], "" if r["class"] != "ok" else " non-nil bytes")})
        elif r["kind"] == "nulldec":
            evaluations += 1
            nontrivial.add(("dec", r["type_coq"], r["go_type"], r["input"]))
            stringy = any(("TScalar " + s) in r["type_coq"] and r["type_coq"].startswith("(TScalar") for s in STRING_TYPES)
            expect_null = not (stringy and r["input"] == "empty")
            # empty input to a byte-string codec is the empty (non-NULL) string / blob: the destination then holds an empty, possibly non-nil value
            ok = r["class"] == "ok" and r["was_null"] == expect_null and (r["zeroed"] or not expect_null)
            if not ok:
                findings.append({"kind": "null-decode", "type_cql": r["type_cql"], "go_type": r["go_type"], "input": r["input"], "ver": r["ver"], "observed_class": r["class"],
                                 "was_null": r.get("was_null"), "zeroed": r.get("zeroed"), "prefill": r.get("prefill", "")[:200], "err": r.get("err", "")[:300],
                                 "what": "%s.Decode(%s, %s pre-filled with %s) v%d: class=%s wasNull=%s zeroed=%s; expected ok, wasNull=%s, zero value" % (
                                     r["type_cql"], r["input"], r["go_type"], r.get("prefill", "")[:80], r["ver"], r["class"], r.get("was_null"), r.get("zeroed"), expect_null)})
            if r["go_type"] == "*interface {}":
                src = "None" if r["input"] == "nil" else "(Some [])"
                exp = "VNull" if expect_null else "(VBytes [])"
                ccases.append((r["id"], "dec_agrees %d %s %s %s" % (r["ver"], r["type_coq"], src, cc.dobs(r["class"], exp))))
    # ---- nulls inside containers
    cases = [r for r in recs if r["kind"] in ("case", "directed") and ("VNull" in r["val_coq"])]
    for r in cases:
        evaluations += 1
        nontrivial.add(("nested", r["type_coq"], r["val_coq"], r["ver"] >= 3))
        if r["ver"] < 3 and r["null_in_coll"]:
            if r["enc_class"] != "err":
                findings.append(dict(cc.slim(r), kind="v2-null-not-refused", what="%s %s v2: a NULL inside a collection was not refused: %s %s" % (r["type_cql"], r["val_coq"][:300], r["enc_class"], r.get("enc_hex", "")[:100])))
        elif r["enc_class"] in ("ok", "null"):
            if not (r["dec_class"] == "ok" and r["rt_equal"] and r["same_class"] == "ok" and r["same_equal"]):
                findings.append(dict(cc.slim(r), kind="nested-null-lost", what="%s %s (as %s, v%d): NULLs did not survive: untyped %s %s / same representation %s %s" % (
                    r["type_cql"], r["val_coq"][:300], r["rep"], r["ver"], r["dec_class"], r.get("dec_coq", "")[:200], r["same_class"], r.get("same_coq", "")[:200])))
        elif r["enc_class"] in ("err", "panic"):
            findings.append(dict(cc.slim(r), kind="nested-null-encode-failed", what="%s %s (as %s, v%d): Encode %s: %s" % (r["type_cql"], r["val_coq"][:300], r["rep"], r["ver"], r["enc_class"], r.get("err", "")[:200])))
        if cc.usable(r):
            ccases.append((r["id"], "enc_agrees %d %s %s %s %s" % (r["ver"], r["type_coq"], r["val_coq"], cc.coqbool(r["unordered"]), cc.eobs(r))))
    # ---- NULL into re-used destinations: a NULL element / field / value (and a NULL or empty whole value) decoded into a variable that
    #      already holds a non-NULL value there must leave the zero value, for every container representation (model-free predicate),
    #      and the Go-representation model must agree on the very same cases
    # Encode of a value holding NULLs / nil pointers leaves its source alone
    sf0, sn0 = cc.source_findings(cases)
    findings += sf0
    evaluations += sn0
    rf, rn = cc.reuse_findings(recs, null_only=True)
    findings += rf
    evaluations += rn
    nontrivial |= {("reuse", r["type_coq"], r["rep"], r["input"], r["val_coq"]) for r in recs if r["kind"] == "reuse" and (r["input"] != "value" or "VNull" in r["val_coq"])}
    ccases += [c for c, r in zip(cc.reuse_cases(recs), [r for r in recs if r["kind"] == "reuse" and r.get("gty")]) if r["input"] != "value" or "VNull" in r["val_coq"]]
    if model_ok and ccases:
        ok, bad, log = cc.eval_cases("Cases_C14", [], ccases)
        if not ok:
            broken.append("correspondence file does not evaluate: " + log[-400:])
        if bad:
            broken.append("correspondence: the model disagrees with the compiled code on NULL cases %s" % bad[:20])
    run.coverage["evaluations"] = evaluations + len(ccases)
    run.coverage["traces_validated_against_impl"] = len(ccases)
    run.coverage["distinct_nontrivial"] = len(nontrivial)
    run.coverage["rule"] = ("nullenc: one per (codec, nil-able Go source type, version class); nulldec: one per (codec, destination Go type pre-filled non-zero, nil|empty input, version class); "
                            "nested: generated / directed values containing NULL inside containers; non-trivial = distinct such tuples; correspondence = model vs code on the same cases in coqc")
    run.coverage["input_distribution"] = {"nullenc": sum(1 for r in recs if r["kind"] == "nullenc"), "nulldec": sum(1 for r in recs if r["kind"] == "nulldec"),
                                          "nested_null_cases": len(cases), "nested_v2": sum(1 for r in cases if r["ver"] < 3),
                                          "null_into_reused_destination": rn}
    run.coverage["samples"] = [{k: r[k] for k in ("type_cql", "go_type", "class", "is_nil")} for r in recs if r["kind"] == "nullenc"][:3] + \
                              [{k: r[k] for k in ("type_cql", "go_type", "input", "was_null", "zeroed")} for r in recs if r["kind"] == "nulldec"][:3]
    run.coverage["exhaustive"] = False
    if run.tier == "thorough":
        rc, out = vlib.coqchk("C14")
        run.note("coqchk rc=%s %s" % (rc, out.strip()[-200:]))
        if rc != 0:
            broken.append("coqchk failed: " + out[-300:])
    cc.verdict(run, "C14", findings, broken, "call Encode / Decode of datacodec.NewCodec(type) with the named nil source or pre-filled destination")
