"""C17 - deep copies are equal to and independent of their originals."""
import json
import os
import re

import vlib
from vlib import coq_str

UNITS = "deepcopy"
AREA = "copy"

MANIFEST = {
    "text": ("Theorems over a table regenerated from {primitive,datatype,message,frame,segment}/*.go on every run: go2coq reads the SHAPE of every type "
             "that has a deep-copy operation off its declaration (go/types) and the COPY PLAN of every DeepCopy* method off the AST of its body "
             "(the fixed statement shapes of k8s deepcopy-gen plus primitive/uuid.go; anything else fails closed). model/DeepCopy.v gives plans a "
             "semantics over label-annotated value trees with an allocation counter; proofs/DeepCopyProofs.v proves, for every table whose functions are "
             "locally adequate, that a copy is equal to its original after label erasure and that every mutable location reachable from it is fresh, hence "
             "not reachable from the original, hence a write through either is not observable through the other (induction on the run); "
             "all_plans_adequate = true is checked by vm_compute over the regenerated table (64 types, 174 methods). "
             "A reflective walker calls the real DeepCopy* of every type on populated values (every interface implementation, nil / empty / nested "
             "variants), checks equality, memory overlap and single-location mutations in both directions, and hands original and copy as labelled "
             "trees to the model, whose run of the regenerated plan must reproduce the implementation's copy, labels included."),
    "technique": "Rocq proof over go2coq-regenerated copy plans + reflective model/code correspondence",
    "design_ref": "3 C17, 8.3",
    "note": ("Theorems are named _partial because the typing of values excludes a typed nil pointer stored in an interface field: for that shape the "
             "generated DeepCopy<Interface> returns the untyped nil interface (C17_typed_nil_interface_refuted, replayed on the implementation). "
             "Values are finite trees (no cycles), a slice is its elements [0,len), unsafe/cgo memory is outside the model."),
}

SHARD_BYTES = 700 * 1024
FUEL = 400


def norm_ty(t):
    """Canonical form of a shape for comparing go/types (translator) with reflect (harness)."""
    if t is None:
        return None
    k = t["k"]
    if k in ("scalar", "string"):
        return k
    if k in ("named", "iface"):
        return (k, t["n"])
    if k in ("ptr", "slice"):
        return (k, norm_ty(t["e"]))
    if k == "array":
        return (k, t.get("len", 0), norm_ty(t["e"]))
    if k == "map":
        return (k, norm_ty(t["key"]), norm_ty(t["e"]))
    return ("unsupported", t.get("n"))


def norm_path(p):
    return re.sub(r"\{[^}]*\}", "{}", re.sub(r"\[[0-9]+\]", "[]", p))


def case_ok(r):
    return (r["equal"] and r["orig_unchanged"] and not r["aliased"] and not r["leak_copy_to_orig"] and not r["leak_orig_to_copy"]
            and not r.get("panic") and not r.get("bad"))


def model_run(run, cases, broken):
    """Evaluate the model on the harness's cases inside coqc; returns number of cases compared."""
    header = ("From Coq Require Import ZArith List String Bool.\nFrom GCNP Require Import model.DeepCopy gen.DeepCopy_gen.\n"
              "Import ListNotations.\nOpen Scope string_scope.\nOpen Scope Z_scope.\nSet Printing Depth 1000000.\nSet Printing Width 1000000.\n"
              "Definition chk (id fn : string) (k : ty) (typed : bool) (next : nat) (o c : val) : list string :=\n"
              "  List.app (if Bool.eqb (has_kind_b dc_env dc_ifaces %d o k) typed then [] else [String.append id \":typing\"])\n"
              "   match run dc_funcs %d (PCall fn) next o with\n"
              "   | Some (_, c') => if val_eqb (mask next c') (mask next c) then [] else [String.append id \":copy-differs\"]\n"
              "   | None => [String.append id \":model-panics\"]\n"
              "   end.\n" % (FUEL, FUEL))
    shards, cur, size = [], [], 0
    for r in cases:
        if r.get("panic"):
            continue
        typed = "false" if r.get("typed_nil") else "true"
        line = "chk %s %s %s %s %d%%nat\n (%s)\n (%s)" % (coq_str(r["id"]), coq_str(r["fn"]), r["arg_ty"], typed, r["next"], r["orig"], r["copy"])
        if size + len(line) > SHARD_BYTES and cur:
            shards.append(cur)
            cur, size = [], 0
        cur.append(line)
        size += len(line)
    if cur:
        shards.append(cur)
    compared = 0
    for i, sh in enumerate(shards):
        text = header + "Definition mism := Eval vm_compute in List.concat [\n" + ";\n".join(sh) + "].\nPrint mism.\n"
        rc, out = vlib.coq_eval("Cases_C17_%d" % i, text, timeout=1200)
        flat = " ".join(out.split())
        if rc != 0:
            broken.append("correspondence file Cases_C17_%d does not evaluate: %s" % (i, flat[-400:]))
            continue
        compared += len(sh)
        if "mism = []" not in flat:
            broken.append("correspondence: the model's run of the regenerated copy plan differs from what the implementation did on: " + flat[:600])
    return compared


def check(run):
    fails = vlib.standard_prelude(run, UNITS, AREA)
    broken = []
    if "forbidden" in fails:
        broken.append("forbidden declarations in the development: %s" % fails["forbidden"])
    if "go2coq" in fails:
        broken.append("translation of the deep-copy code failed (unrecognised copy statement or shape): " + fails["go2coq"].strip()[-700:])
    if "harness" in fails:
        broken.append("harness area copy does not build against /repo: " + fails["harness"].strip()[-600:])

    # ---- proofs over the regenerated table
    with vlib.Lock():
        pr = vlib.coq_prop("C17")
    run.add_proof(pr)
    if not pr["ok"]:
        broken.append("props/C17.v or a dependency no longer checks: %s %s" % (pr["failed_at"], pr["errors"]))
        # name the functions / fields whose plan is not adequate (model only; does not need the proofs)
        if "go2coq" not in fails:
            with vlib.Lock():
                okg, _ = vlib.coq_make(["gen/DeepCopy_gen.vo"])
            if okg:
                rc, out = vlib.coq_eval("Adeq_C17", vlib.EVAL_HEADER + "From GCNP Require Import model.DeepCopy gen.DeepCopy_gen.\n"
                                        "Definition bad_fns := Eval vm_compute in inadequate_functions dc_env dc_ifaces dc_funcs.\nPrint bad_fns.\n"
                                        "Definition bad_fields := Eval vm_compute in inadequate_fields dc_env dc_ifaces dc_funcs.\nPrint bad_fields.\n"
                                        "Definition bad_roots := Eval vm_compute in filter (fun r => negb (root_ok dc_funcs r)) dc_roots.\nPrint bad_roots.\n")
                flat = " ".join(out.split())
                if rc == 0 and not ("bad_fns = []" in flat and "bad_roots = []" in flat):
                    broken.append("copy plans that are not adequate for the declared shape: " + flat[:900])
    run.coverage["trusted_base"] += [
        "tools/go2coq/unit_deepcopy.go: recognition of the statement shapes of deepcopy-gen and their reading as plans (cross-checked on every run: "
        "the model's run of the plan must reproduce the implementation's copy, labels included, on every generated case)",
        "model/DeepCopy.v abstractions: values are finite trees; a slice is its elements [0,len); maps are association lists; "
        "reflect/unsafe as used by the harness to see pointers, backing arrays and unexported fields",
    ]

    # ---- implementation
    recs = []
    table_path = os.path.join(vlib.COQ, "gen", "deepcopy_table.json")
    if "harness" not in fails:
        args = [table_path] + (["thorough"] if run.tier == "thorough" else [])
        rc, out, err = vlib.harness(AREA, args, run.seed, timeout=1800)
        if rc != 0:
            broken.append("harness copy failed rc=%s: %s" % (rc, err[-400:]))
        recs = [json.loads(l) for l in out.split("\n") if l.strip()]
    try:
        table = json.load(open(table_path))
    except Exception:
        table = {"types": [], "ifaces": [], "funcs": []}
    table_fresh = "go2coq" not in fails

    findings = []
    cases = [r for r in recs if r["kind"] == "case"]
    shapes = {r["type"]: r for r in recs if r["kind"] == "shape"}
    ifaces = {r["name"]: r for r in recs if r["kind"] == "iface"}
    reg = next((r for r in recs if r["kind"] == "registry"), None)

    # ---- registry and shapes: reflection against the translator's table
    if reg is not None and table_fresh:
        for n in reg.get("missing_in_harness") or []:
            broken.append("type %s has a deep-copy operation (translator's table) but is not in the harness registry: it is not exercised" % n)
        for n in reg.get("missing_in_table") or []:
            broken.append("type %s is in the harness registry but the translator found no deep-copy operation for it" % n)
        for n in reg.get("registered_without_copy_method") or []:
            broken.append("registered type %s has no DeepCopy method" % n)
    shape_cmp = 0
    if table_fresh and shapes:
        for t in table["types"]:
            s = shapes.get(t["name"])
            if s is None:
                continue
            if t["decl"] == "struct":
                a = [(f["name"], norm_ty(f["ty"])) for f in t.get("fields") or []]
                b = [(f["name"], norm_ty(f["ty"])) for f in s.get("fields") or []]
            else:
                a, b = norm_ty(t.get("alias")), norm_ty(s.get("alias"))
            shape_cmp += 1
            if a != b or t["decl"] != s["decl"]:
                broken.append("shape of %s differs: translator %s / reflection %s" % (t["name"], a, b))
            if t["name"] in shapes and sorted(t.get("methods") or []) != sorted(s.get("methods") or []):
                broken.append("copy methods of %s differ: translator %s / reflection %s" % (t["name"], t.get("methods"), s.get("methods")))
        for i in table["ifaces"]:
            h = ifaces.get(i["name"])
            if h is None or sorted(h["impls"] or []) != sorted(i["impls"]):
                broken.append("implementations of %s differ: translator %s / reflection %s" % (i["name"], i["impls"], h and h["impls"]))

    # ---- the property's own predicate on the implementation
    seen = set()
    checked_paths = set()
    typed_nil_pairs = set()
    for r in cases:
        for p in r.get("paths") or []:
            checked_paths.add((r["type"], r["method"], p))
        if case_ok(r):
            continue
        if r.get("typed_nil"):
            typed_nil_pairs.add(r["typed_nil"])
            if r.get("panic") or r["aliased"] or r["leak_copy_to_orig"] or r["leak_orig_to_copy"] or not r["orig_unchanged"]:
                pass  # more than the known inequality: falls through to the generic classification below
            else:
                key = ("typed-nil-interface", r["typed_nil"])
                if key not in seen:
                    seen.add(key)
                    findings.append({"kind": "typed-nil-interface", "type": r["type"], "field_path": r["typed_nil"], "method": r["method"],
                                     "implementation": r["variant"].split(":", 1)[1],
                                     "what": "%s holding a typed nil pointer: the copy holds the untyped nil interface, reflect.DeepEqual(copy, original) = false" % r["typed_nil"]})
                continue
        probs = []
        if r.get("panic"):
            probs.append(("panic", [r["panic"]]))
        if not r["orig_unchanged"]:
            probs.append(("original-modified-by-copy", [r["type"]]))
        if r["aliased"]:
            probs.append(("aliased", r["aliased"]))
        if r["leak_copy_to_orig"]:
            probs.append(("write-to-copy-visible-in-original", r["leak_copy_to_orig"]))
        if r["leak_orig_to_copy"]:
            probs.append(("write-to-original-visible-in-copy", r["leak_orig_to_copy"]))
        if not r["equal"] and not probs:
            probs.append(("not-equal", [r.get("diff_path") or r["type"]]))
        if r.get("bad"):
            broken.append("harness could not represent a value of %s: %s" % (r["type"], r["bad"][:3]))
        for kind, paths in probs:
            for p in paths:
                fp = norm_path(p)
                key = (kind, r["type"], r["method"], fp)
                if key in seen:
                    continue
                seen.add(key)
                findings.append({"kind": kind, "type": r["type"], "method": r["method"], "field_path": fp, "variant": r["variant"], "case": r["id"],
                                 "seed": run.seed, "equal": r["equal"], "original": r["orig"][:4000], "copy": r["copy"][:4000],
                                 "what": "%s.%s(): %s at %s (variant %s)" % (r["type"], r["method"], kind, fp, r["variant"])})

    # ---- correspondence: the model's run of the regenerated plan against the implementation's copy
    compared = 0
    if cases and table_fresh:
        with vlib.Lock():
            okg, log = vlib.coq_make(["gen/DeepCopy_gen.vo"])
        if not okg:
            broken.append("gen/DeepCopy_gen.v does not compile: " + log[-400:])
        else:
            compared = model_run(run, cases, broken)
    elif cases:
        broken.append("correspondence skipped: no fresh translation of the copy plans")

    run.coverage["evaluations"] = len(cases) + sum(r["mutations"] for r in cases)
    run.coverage["traces_validated_against_impl"] = compared
    run.coverage["distinct_nontrivial"] = len(checked_paths)
    run.coverage["rule"] = ("implementation: every registered type x every DeepCopy* method x variants (one fully populated variant per implementation of every "
                            "reachable interface, all-nil, all-empty, seeded random mixes); per case reflect.DeepEqual, overlap of every pointer target / backing "
                            "array / map of the copy with the original's, and one mutation per reachable leaf / element / entry in both directions; "
                            "non-trivial = a distinct (type, method, field path) of a mutable node reached in a copy; "
                            "correspondence = the same originals through model/DeepCopy.v's run of the regenerated plan inside coqc, result compared with the "
                            "implementation's copy as labelled trees (fresh and shared labels must coincide)")
    run.coverage["samples"] = [{"type": r["type"], "method": r["method"], "variant": r["variant"], "orig": r["orig"][:300], "copy": r["copy"][:300]}
                               for r in cases[:200:40]]
    run.coverage["exhaustive"] = False
    run.coverage["input_distribution"] = {
        "types": len(shapes), "cases": len(cases), "mutations": sum(r["mutations"] for r in cases), "shapes_compared": shape_cmp,
        "mutable_nodes_visited": sum(r["nodes"] for r in cases),
        "variants": {v: sum(1 for r in cases if r["variant"].split("#")[0].split(":")[0] == v) for v in ("full", "zero", "empty", "mixed", "typednil")},
        "typed_nil_field_paths": sorted(typed_nil_pairs),
    }
    if run.tier == "thorough":
        rc, out = vlib.coqchk("C17")
        run.coverage["coqchk"] = "ok" if rc == 0 else out[-300:]
        if rc != 0:
            broken.append("coqchk failed on props/C17: " + out[-300:])

    # ---- verdict
    known = vlib.known_findings("C17")
    reported = set()
    nviol = 0
    # one root cause shows at many (type, method, path) combinations (a field of QueryOptions is reached from Query, Execute, Body, Frame ...):
    # report the shortest path per (kind, innermost field) and list the others in it
    groups = {}
    for f in findings:
        if f["kind"] == "typed-nil-interface":
            continue
        groups.setdefault((f["kind"], f["field_path"].rsplit(".", 1)[-1]), []).append(f)
    grouped = [f for f in findings if f["kind"] == "typed-nil-interface"]
    for fs in groups.values():
        fs.sort(key=lambda f: (len(f["field_path"]), f["field_path"], f["method"]))
        rep = dict(fs[0])
        rep["also_at"] = sorted({"%s.%s(): %s" % (f["type"], f["method"], f["field_path"]) for f in fs[1:]})[:40]
        grouped.append(rep)
    findings = grouped
    for f in findings:
        k = next((e for e in known if e.get("match") and all(f.get(a) == b for a, b in e["match"].items())), None)
        if k:
            w = k.get("what", f["what"])
            if w not in reported:
                reported.add(w)
                run.known(w)
        elif nviol < 12:
            nviol += 1
            run.violation({"property": "C17", "failing_input": f, "broken": broken,
                           "how_to_replay": "build/harness-copy coq/gen/deepcopy_table.json with VERIF_SEED=%d prints the case; or: populate a %s as in `original` "
                                            "(labels name pointer targets / backing arrays / maps), call %s(), compare the field path" % (run.seed, f["type"], f.get("method"))})
    if broken and not run.violations:
        run.violation({"property": "C17", "broken": broken,
                       "note": "a proof obligation, the translation or the model/code correspondence no longer checks and the search found no failing input"},
                      no_input=True)
