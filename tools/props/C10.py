"""C10 - responses reach exactly the request with the same stream id."""
import inflightlib as il

MANIFEST = {
    "text": ("Theorems over the executable Gallina model of client/inflight.go (+ processIncomingFrame's routing): every history of handler "
             "operations refines the specification 'stream id -> ordered list of pages' (a delivered page is appended exactly once, to the entry "
             "registered under its id at that moment, in arrival order; the final frame closes the entry; no other operation changes any page "
             "list); step-level frame condition of a delivery (only the target request, the pool and the finished list move); a response for an "
             "unknown id returns an error and changes nothing; EVENT frames go to handlers and the event queue only; a multi-page response of up "
             "to maxPending waiting pages is delivered completely and completes its request; id reuse racing with a late page: while a request "
             "that failed without its final frame (timeout, overflow) is unanswered, over every continuation its entry keeps its pages, a new "
             "request with its id is refused, and the late frames are refused without touching any other request. Tie: payload-tagged responses in every permutation "
             "for k<=4 (5 in thorough) x 1..3 pages, with spurious ids, overflow, and events through the real processIncomingFrame, compared with the "
             "model under vm_compute; the routing predicate is evaluated on the implementation after every step."),
    "technique": "Rocq proof (refinement to an abstract page map, induction over histories) + model/code correspondence on operation histories",
    "design_ref": "3 C10, 8.1",
    "note": ("Connection level (segments, versions) is exercised by the `wire` sessions, proved in C15. Residual, named: the schedule quantifier (senders concurrent with the receive loop) is covered on the LTS of proofs/InflightSched.v for "
             "registration; delivery itself runs on the single receive goroutine. The release-before-deliver order is modelled as is. "
             "v5 segment framing is proved under C15; here it is exercised end to end."),
    "hooks": il.HOOKS,
}


def check(run):
    broken, findings, results = il.standard(run, "C10", "c10", extra_subs=("wire",))
    run.coverage["rule"] = (
        "perm-k<k>-p<pages>: k managed requests outstanding, their responses of 1..3 pages delivered in every permutation of the requests "
        "(round by round), with and without interleaved responses for an unknown id, then k more sends; perm-overflow: maxPending+1 pages "
        "without a consumer; exh-*-conn / rand conn: histories through a real CqlClientConnection without its goroutines (Send with the "
        "outgoing queue, processIncomingFrame with EVENT and response frames). Every frame carries its position in the history as payload "
        "tag; after the history each request's received tags are compared with the tags that answer it (a frame for id k answers the "
        "oldest accepted request with id k whose final frame has not arrived). "
        "reuse-* / exh-reuse-* / rand-reuse-*: id reuse racing with a late page - a request with a caller-chosen id fails without its final "
        "frame (maxPending+1 unread pages, or the read timeout in real time), the id is sent again (must be refused), the late frames "
        "arrive; directed, every continuation to depth 3, random. flood-conn: more EVENT frames than the events queue holds (nobody "
        "drains it) interleaved with responses. timing-paged: multi-page responses in real time, a page every 0.2-0.3 read timeouts for "
        "more than 2 timeouts (all pages must arrive, verdict timeout-early otherwise). Every call into the library runs under a watchdog: "
        "a processIncomingFrame that never returns is reported as receiver-blocked with the history and the step, the response frames "
        "behind it as delivery-failed. wire (exercised, not proved): a real client and server connection over localhost for v3, v4, v5 (segment "
        "framing), DSE v1, DSE v2: three outstanding requests with responses distinguishable on sight (RESULT Void with a payload tag, READY = "
        "a frame of header only, SUPPORTED) answered in all 6 orders, an EVENT interleaved in half of the rounds, and with segment framing "
        "the three responses coalesced into one self-contained segment (header-only frame last / first); every request must receive exactly "
        "its own response within the read timeout, the event must arrive on the event channel. response-kind rounds (v4, v5; all five versions "
        "in thorough): 19 kinds of response - READY, SUPPORTED, RESULT Void / SetKeyspace, AUTH_CHALLENGE, AUTH_SUCCESS and every ERROR variant "
        "used here (7 message-only, UNAVAILABLE, ALREADY_EXISTS, UNPREPARED, and the fatal SERVER_ERROR, PROTOCOL_ERROR, AUTH_ERROR) - sent to the "
        "second of three outstanding requests: that request must receive exactly that frame, also when the client then closes the "
        "connection because the error is fatal; the other two are untouched and get their own answers. wiring-sessions: the same real connections with "
        "MaxInFlight != MaxPending (2/5, 5/2, 1/3, 3/1): a response of MaxPending pages that nobody reads before the last one has arrived must be "
        "delivered completely and in order (verdicts delivery-failed, wrong-pages, last-not-complete). "
        "non-trivial = at least one request accepted and at least one other kind of outcome; distinct = distinct (N, maxPending, mode, ops)")
    run.coverage["rule"] += (
        " Response frames of the histories take every shape the codec supports (DSE v1 / v2 pages with and without paging state, new result "
        "metadata id, column specifications, page numbers 1..1000; Void, READY, plain Rows, ERROR as final frames) and are encoded and decoded by "
        "the real frame codec before delivery; isLastFrame's answer is compared with LastContinuousPage as sent (verdict last-frame-misjudged).")
    il.verdict(run, "C10", broken, findings)
