"""C09 - stream ids: unique while in flight, bounded, recycled, refused when exhausted."""
import inflightlib as il

MANIFEST = {
    "text": ("Theorems over ALL finite operation histories (induction over fold_left step, any N >= 1, any mix of managed / explicit sends, "
             "final / non-final / unknown-id deliveries, events, consumer reads, clock ticks, Close) of an executable Gallina model that mirrors "
             "client/inflight.go statement by statement: accepted managed ids lie in [1,N]; an accepted id is carried by no unanswered request; a "
             "request stays registered until its final frame or Close, and over every history in between (timeouts, overflow included) an explicit "
             "send with its id is refused; with N unanswered every send is refused and nothing is lost; explicit reuse "
             "is refused; pool + managed-in-flight is a permutation of 1..N in every open reachable state (mixed histories included); after all "
             "answers N managed sends succeed with ids covering 1..N. Schedules: a small-step semantics of the code's atomic actions (any number "
             "of senders with managed and explicit ids mixed, the receive loop, closers) with an inductive invariant for EVERY interleaving: no two "
             "accepted unanswered requests share a stream id (explicit ids included), never more than N of them, the map holds exactly them, "
             "free / held / registered managed ids are disjoint inside [1,N]. The model is "
             "tied to the compiled handler on every run: exhaustive histories to a depth bound for N<=3 and seeded random long histories through "
             "the verif shim, compared under vm_compute; the property's predicates are also evaluated directly on the implementation."),
    "technique": "Rocq proof (induction over histories, inductive invariant over an LTS) + model/code correspondence on operation histories",
    "design_ref": "3 C09, 8.1",
    "note": ("Residual, named: atomicity of the modelled actions in Go and the schedule quantifier on the REAL code (interleavings are proved on "
             "the LTS, the LTS is tied to the code by reading and by the sequential correspondence; concurrent stress runs are exercised, not proved). "
             "Known finding F12 (Send leaves a request registered when the outgoing queue is full) is kept as a refuted theorem. "
             "F10 (explicit-id check-then-act) was repaired by e71cde5; the two-goroutine probe stays in the stress run as a regression guard."),
    "hooks": il.HOOKS,
}


def check(run):
    broken, findings, results = il.standard(run, "C09", "c09", extra_subs=("stress", "wire"))
    run.coverage["rule"] = (
        "histories = lists of operations on one handler built with (N, maxPending): exhaustive over an alphabet of sends (managed, explicit in "
        "and out of [1,N]), deliveries (final / non-final, known / unknown id), consumer read and Close up to the depth in the group name for "
        "N<=3; seeded random histories of 40..8000 operations for N up to 1024 (32767 in both tiers: a full fill on the implementation and a "
        "partial fill through the model); each is run on the real handler through client/verif_hooks.go and through model/Inflight.v under "
        "vm_compute and the per-step outcome + final state (FIFO pool, key set, every request) compared. "
        "reuse-overflow / reuse-timeout / exh-reuse-* / rand-reuse-*: a request with a caller-chosen (or managed) id fails without its final "
        "frame (maxPending+1 unread pages, or - in real time - the read timeout), then the same id is sent again explicitly (must be refused), "
        "then the late frames for that id arrive: directed, every continuation to depth 3 after the failure, and random histories biased "
        "towards explicit ids inside [1,N]. Every call into the library runs under a watchdog (a call that never returns is reported as "
        "send-blocked / receiver-blocked / close-hangs with the history and the step). "
        "wiring-sessions (wire, exercised): real CqlClientConnection objects configured with MaxInFlight != MaxPending in both directions "
        "(2/5, 5/2, 1/3, 3/1): the peer reads and does not answer; every stream id on the wire is in 1..MaxInFlight and unique, exactly "
        "MaxInFlight managed requests are accepted and the next is refused with an error, after all answers MaxInFlight more are accepted "
        "(verdicts over-capacity, under-capacity, id-out-of-bounds, duplicate-id, recycling, send-blocked). "
        "non-trivial = a history in which at least one request was accepted and at least one other kind of outcome occurred; distinct = distinct "
        "(N, maxPending, mode, operation list)")
    run.coverage["rule"] += (
        " Response frames of the histories take every shape the codec supports (DSE v1 / v2 pages with and without paging state, new result "
        "metadata id, column specifications, page numbers 1..1000; Void, READY, plain Rows, ERROR as final frames) and are encoded and decoded by "
        "the real frame codec before delivery; isLastFrame's answer is compared with LastContinuousPage as sent (verdict last-frame-misjudged).")
    il.verdict(run, "C09", broken, findings)
