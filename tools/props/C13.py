"""C13 - numeric conversions never lose information silently."""
import json
import math
import os
import re
import struct
from fractions import Fraction

import vlib
from vlib import zlit, coq_str

UNITS = "numeric"

MANIFEST = {
    "text": ("Theorems over Gallina definitions regenerated on every run from datacodec/conversions.go, math.go and the convertTo*/convertFrom* "
             "type switches and read*/write* functions of the numeric codecs (every Go cast an explicit wrap): each range-checked helper returns "
             "exactly its argument or fails, for every argument; addExact/multiplyExact/floorDiv/floorMod are exact on all of int64 x int64; each "
             "type switch yields the same mathematical integer or an error for every accepted Go source / destination type; fixed-width and varint "
             "bytes round-trip. The regenerated functions are compared with the compiled code on boundary and random inputs, and the property's own "
             "predicate is evaluated on the public Codec API for every (CQL numeric type, Go type) pair, judged with math/big."),
    "technique": "Rocq proof over go2coq-regenerated definitions + model/code correspondence + directed boundary search on the implementation",
    "design_ref": "3 C13",
    "hooks": ["datacodec/verif_hooks.go (build tag verif): name -> function table of the unexported conversion code"],
    "note": "strconv, math/big text and float conversions, IEEE narrowing and time formatting are oracles (Section variable O : oracles) with stated contracts. "
            "A *big.Float destination carries the precision the caller preset (godst D_pbigfloat isnil prec); big.Float.SetFloat64 is the oracle "
            "(prec, bits) -> (value held, Acc()), with the contract 'Acc() = Exact iff the value held is the argument' - exactness is not assumed.",
}


# ------------------------------------------------------------------------------------------ rendering of cases as Gallina terms
def gstr(s):
    return coq_str(s)


def goval(c, p):
    if c in ("G_nil", "G_other"):
        return c
    if p.get("nil"):
        return "(%s None)" % c
    if "z" in p:
        body = zlit(p["z"])
    elif "s" in p:
        body = gstr(p["s"])
    elif "bf" in p:
        body = "(%s, %s)" % (zlit(p["bf"][0]), zlit(p["bf"][1]))
    else:
        raise ValueError("payload %r" % (p,))
    if c.startswith("G_p"):
        return "(%s (Some %s))" % (c, body)
    return "(%s %s)" % (c, body)


def stored(st):
    c = st["c"]
    if c in ("G_nil", "G_other"):
        return c
    return goval(c, st)


def hexlist(h):
    b = bytes.fromhex(h)
    return "[" + "; ".join(str(x) for x in b) + "]"


def b(x):
    return "true" if x else "false"


# premises about oracles that theorems of props/C13.v carry, in the order of coq/model/NumContracts.v's contract_verdicts:
# (name, oracle table its instances are drawn from, statement, theorems that use it)
CONTRACTS = [
    ("oc_ParseInt", "ParseInt", "strconv.ParseInt(s, 10, bits) = v, nil  ->  s denotes v  and  v fits in bits bits", "to/from_switches_exact, convertToBigInt_exact (oracle_contract)"),
    ("oc_FormatInt", "FormatInt", "strconv.FormatInt(v, 10) denotes v", "from_switches_exact (oracle_contract)"),
    ("oc_BigSetString", "BigSetString", "new(big.Int).SetString(s, 10) = v, true  ->  s denotes v", "convertToBigInt_exact (oracle_contract)"),
    ("oc_BigText", "BigText", "v.Text(10) denotes v", "convertFromBigInt_exact (oracle_contract)"),
    ("widen_exact", "f32_to_f64", "float64(w) is the value of the float32 w", "float64ToFloat32_exact/_nan, convertFromFloat64_exact, convertToFloat32_exact"),
    ("eq_sound", "f64_eqb", "a == b (float64)  ->  a and b are the same value", "float64ToFloat32_exact/_nan, convertFromFloat64_exact, convertToFloat32_exact"),
    ("isnan_sound", "f64_isnan", "math.IsNaN(b)  <->  b is a NaN (the premise is the -> direction)", "float64ToFloat32_exact/_nan, convertFromFloat64_exact, convertToFloat32_exact"),
    ("narrow_nan", "f64_isnan", "math.IsNaN(b)  ->  float32(b) is a NaN", "float64ToFloat32_exact/_nan, convertFromFloat64_exact, convertToFloat32_exact"),
    ("bigfloat_exact", "BigFloat_Float64", "f.Float64() = b, big.Exact  ->  b is the value of f", "bigFloatToFloat64_exact"),
    ("setfloat_acc", "BigFloat_SetFloat64", "z of precision p, b not NaN: after z.SetFloat64(b), z.Acc() == big.Exact  <->  z holds the value of b",
     "float64ToBigFloat_exact/_decides, convertFromFloat64_exact"),
]


PIECE = 800        # elements per [...] literal (longer lists are pieces joined with ++: one huge literal overflows coqc's stack)
PART = 4000        # cases per Definition (a group is cut into parts)
SHARD = 24000      # cases per generated file = per coqc process
MAX_PAR = 4        # coqc processes at a time (each may need GBs)
SHARD_TIMEOUT = 1200
SHARD_MEM_KB = 12 * 1024 * 1024


def lit(items):
    """a Gallina list of the given element texts, no [...] piece longer than PIECE"""
    items = list(items)
    if len(items) <= PIECE:
        return "[" + "; ".join(items) + "]"
    return "(" + " ++ ".join("[" + "; ".join(items[i:i + PIECE]) + "]" for i in range(0, len(items), PIECE)) + ")"


def oracle_tables(recs, tabrecs=None):
    t = {k: [] for k in ("ParseInt", "FormatInt", "BigSetString", "BigText", "f64_to_f32", "f32_to_f64", "f64_eqb", "f64_isnan",
                         "BigFloat_Float64", "BigFloat_SetFloat64")}
    for r in recs:
        if r["k"] != "o":
            continue
        f = r["fn"]
        if tabrecs is not None:
            tabrecs.setdefault(f, []).append(r)
        if f == "ParseInt":
            t[f].append("((%s, %d), %s)" % (gstr(r["s"]), r["bits"], "Some %s" % zlit(r["v"]) if r["ok"] else "None"))
        elif f == "FormatInt" or f == "BigText":
            t[f].append("(%s, %s)" % (zlit(r["x"]), gstr(r["s"])))
        elif f == "BigSetString":
            t[f].append("(%s, (%s, %s))" % (gstr(r["s"]), zlit(r["v"]), b(r["ok"])))
        elif f in ("f64_to_f32", "f32_to_f64"):
            t[f].append("(%s, %s)" % (zlit(r["x"]), zlit(r["y"])))
        elif f == "f64_eqb":
            t[f].append("((%s, %s), %s)" % (zlit(r["x"]), zlit(r["y"]), b(r["r"])))
        elif f == "f64_isnan":
            t[f].append("(%s, %s)" % (zlit(r["x"]), b(r["r"])))
        elif f == "BigFloat_Float64":
            t[f].append("((%s, %s), (%s, %s))" % (zlit(r["bf"][0]), zlit(r["bf"][1]), zlit(r["y"]), zlit(r["acc"])))
        elif f == "BigFloat_SetFloat64":
            # keyed by (precision the destination was preset to, float64 bits): (value held afterwards, Acc())
            t[f].append("((%s, %s), ((%s, %s), %s))" % (zlit(r["prec"]), zlit(r["x"]), zlit(r["bf"][0]), zlit(r["bf"][1]), zlit(r["acc"])))
    fields = ";\n  ".join("t_%s := %s" % (k, lit(v)) for k, v in t.items())
    return "Definition T : oracle_tables := {| %s |}.\nDefinition OI : oracles := table_oracles T.\n" % fields


def bf_real(bf):
    """exact value of the harness's (mantissa, exponent) description of a *big.Float: Fraction, or +-inf"""
    m, e = int(bf[0]), int(bf[1])
    if e == 1000000:
        return math.inf if m > 0 else -math.inf
    if m == 0:
        return Fraction(0)
    return Fraction(m) * Fraction(2) ** e


def f64_real(bits):
    f = struct.unpack(">d", struct.pack(">Q", int(bits)))[0]
    if math.isinf(f) or math.isnan(f):
        return f
    return Fraction(f)


def godst(r):
    """a destination record as a godst term (a *big.Float destination carries the precision it was preset to)"""
    if r["c"] == "D_other":
        return "D_other"
    if r["c"] == "D_pbigfloat":
        return "(D_pbigfloat %s %s)" % (b(r["dnil"]), zlit(r["prec"]))
    return "(%s %s)" % (r["c"], b(r["dnil"]))


def chunks(lst, n):
    for i in range(0, len(lst), n):
        yield lst[i:i + n]


def build_cases(recs, table):
    """Returns the groups of the correspondence: [(group id, [records in order], Gallina term of type list bool)], each of at most PART cases."""
    uses_o = {f["name"]: f["uses_o"] for f in table.get("functions", [])}

    def app(name):
        return "%s OI" % name if uses_o.get(name) else name

    groups = []

    def group(gid, items, fun, cases):
        """fun: Gallina function from a case to bool; cases: the case texts, parallel to items"""
        items, cases = list(items), list(cases)
        assert len(items) == len(cases)
        nparts = (len(items) + PART - 1) // PART
        for p in range(nparts):
            sub = slice(p * PART, (p + 1) * PART)
            groups.append((gid if nparts == 1 else "%s #%d" % (gid, p), items[sub], "map (%s) %s" % (fun, lit(cases[sub]))))

    for r in recs:
        if r["k"] == "h":
            f = r["go"] if not r["intsize"] else "(fun v => %s v %d)" % (r["go"], r["intsize"])
            group("helper " + r["name"], [{"in": i, "out": o} for i, o in zip(r["ins"], r["outs"])],
                  "fun c => oz_eqb (res_opt (%s (fst c))) (snd c)" % f,
                  ["(%s, %s)" % (zlit(i), "Some %s" % zlit(o) if o is not None else "None") for i, o in zip(r["ins"], r["outs"])])
        elif r["k"] == "m":
            items = [{"x": x, "y": y, "r": rr} for x, y, rr in zip(r["xs"], r["ys"], r["rs"])]
            if r["ov"]:
                group("math " + r["name"], items, "fun c => zb_eqb (%s (fst (fst c)) (snd (fst c))) (snd c)" % r["name"],
                      ["((%s, %s), (%s, %s))" % (zlit(x), zlit(y), zlit(rr), b(o)) for x, y, rr, o in zip(r["xs"], r["ys"], r["rs"], r["ov"])])
            else:
                group("math " + r["name"], items, "fun c => Z.eqb (%s (fst (fst c)) (snd (fst c))) (snd c)" % r["name"],
                      ["((%s, %s), %s)" % (zlit(x), zlit(y), zlit(rr)) for x, y, rr in zip(r["xs"], r["ys"], r["rs"])])
    by = {}
    for r in recs:
        if r["k"] in ("to", "from", "w", "r"):
            by.setdefault((r["k"], r["name"]), []).append(r)
    for (k, name), rs in by.items():
        gid = "%s %s" % (k, name)
        if k == "to":
            if name == "convertToBigInt":
                def exp(r):
                    if not r["ok"]:
                        return "None"
                    return "Some None" if r["nil"] else "Some (Some %s)" % zlit(r["val"])
                group(gid, rs, "fun c => opt_eqb oz_eqb (res_opt (%s (fst c))) (snd c)" % app(name),
                      ["(%s, %s)" % (goval(r["c"], r["p"]), exp(r)) for r in rs])
            else:
                group(gid, rs, "fun c => opt_eqb zb_eqb (res_opt (%s (fst c))) (snd c)" % app(name),
                      ["(%s, %s)" % (goval(r["c"], r["p"]), "Some (%s, %s)" % (zlit(r["val"]), b(r["nil"])) if r["ok"] else "None") for r in rs])
        elif k == "from":
            group(gid, rs, "fun c => match c with (v, n, d, e) => opt_eqb (opt_eqb goval_eqb) (res_opt (%s v n d)) e end" % app(name),
                  ["(%s, %s, %s, %s)" % (zlit(r["val"]), b(r["null"]), godst(r), "Some (Some %s)" % stored(r["st"]) if r["ok"] else "None") for r in rs])
        elif k == "w":
            group(gid, rs, "fun c => zl_eqb (%s (fst c)) (snd c)" % app(name), ["(%s, %s)" % (zlit(r["v"]), hexlist(r["bytes"])) for r in rs])
        elif k == "r":
            group(gid, rs, "fun c => opt_eqb zb_eqb (res_opt (%s (fst c))) (snd c)" % app(name),
                  ["(%s, %s)" % (hexlist(r["bytes"]), "Some (%s, %s)" % (zlit(r["val"]), b(r["null"])) if r["ok"] else "None") for r in rs])
    tm = {}
    for r in recs:
        if r["k"] == "tm":
            tm.setdefault(r["name"], []).append(r)
    for name, rs in tm.items():
        if name in ("ConvertTimeToEpochMillis", "ConvertTimeToEpochDays"):
            group("time " + name, rs, "fun c => oz_eqb (res_opt (%s (fst c))) (snd c)" % name,
                  ["((%s, %s), %s)" % (zlit(r["s"]), zlit(r["n"]), "Some %s" % zlit(r["v"]) if r["ok"] else "None") for r in rs])
        elif name in ("ConvertEpochMillisToTime", "ConvertEpochDaysToTime"):
            group("time " + name, rs, "fun c => zz_eqb (%s (fst c)) (snd c)" % name,
                  ["(%s, (%s, %s))" % (zlit(r["x"]), zlit(r["s"]), zlit(r["n"])) for r in rs])
        else:
            group("time " + name, rs, "fun c => oz_eqb (res_opt (%s (fst c))) (snd c)" % name,
                  ["(%s, %s)" % (zlit(r["x"]), "Some %s" % zlit(r["v"]) if r["ok"] else "None") for r in rs])
    bw = [r for r in recs if r["k"] == "bw"]
    if bw:
        group("writeBigInt (hand model)", bw, "fun c => zl_eqb (writeBigInt (fst c)) (snd c)", ["(%s, %s)" % (zlit(r["v"]), hexlist(r["bytes"])) for r in bw])
    br = [r for r in recs if r["k"] == "br"]
    if br:
        group("readBigInt (hand model)", br, "fun c => oz_eqb (readBigInt (fst c)) (snd c)",
              ["(%s, %s)" % (hexlist(r["bytes"]), "None" if r["null"] else "Some %s" % zlit(r["val"])) for r in br])
    return groups


def shard_groups(groups):
    """Packs the groups, in order, into shards of at most about SHARD cases: [[index of group, ...], ...]"""
    shards, cur, n = [], [], 0
    for i, g in enumerate(groups):
        if cur and n + len(g[1]) > SHARD:
            shards.append(cur)
            cur, n = [], 0
        cur.append(i)
        n += len(g[1])
    if cur:
        shards.append(cur)
    return shards


class CoqJobs:
    """Generated files of one run, evaluated by several coqc processes (at most MAX_PAR at a time), all importing one compiled
    file with the oracle tables.  A coqc that fails, is killed (memory limit) or times out is reported, never ignored."""

    def __init__(self, recs, tabrecs):
        self.tag = "C13_%d" % os.getpid()
        self.rundir = os.path.join(vlib.COQ, "run")
        os.makedirs(self.rundir, exist_ok=True)
        self.files = []
        self.tables = self.tag + "_tables"
        self._write(self.tables, "\n".join([vlib.EVAL_HEADER, "From GCNP Require Import base.GoInt base.GoNum model.NumCases.",
                                            oracle_tables(recs, tabrecs)]) + "\n")

    def _write(self, name, text):
        with open(os.path.join(self.rundir, name + ".v"), "w") as f:
            f.write(text)
        self.files.append(name)

    def _coqc(self, name, timeout):
        cmd = "ulimit -v %d; exec coqc -Q . GCNP -w -all run/%s.v" % (SHARD_MEM_KB, name)
        return vlib.sh(cmd, cwd=vlib.COQ, timeout=timeout)

    def compile_tables(self):
        rc, out = self._coqc(self.tables, 900)
        return rc == 0, " ".join(out.split())[-400:]

    def header(self, imports):
        return "\n".join([vlib.EVAL_HEADER, "From GCNP Require Import base.GoInt base.GoNum model.NumCases %s run.%s." % (imports, self.tables)]) + "\n"

    def run(self, jobs):
        """jobs: [(name, text)]; returns {name: (status, flat output)} with status ok | failed | timeout | killed"""
        from concurrent.futures import ThreadPoolExecutor
        for name, text in jobs:
            self._write(name, text)

        def one(name):
            rc, out = self._coqc(name, SHARD_TIMEOUT)
            flat = " ".join(out.split())
            if rc == 0:
                return name, ("ok", flat)
            if rc == 124:
                return name, ("timeout", "no answer within %d s" % SHARD_TIMEOUT)
            if rc < 0 or rc in (137, 139) or "Out of memory" in flat or "Stack overflow" in flat:
                return name, ("killed", "rc=%s %s" % (rc, flat[-300:]))
            return name, ("failed", "rc=%s %s" % (rc, flat[-400:]))
        with ThreadPoolExecutor(max_workers=MAX_PAR) as ex:
            return dict(ex.map(one, [n for n, _ in jobs]))

    def cleanup(self, keep=()):
        for name in self.files:
            for ext in (".v", ".vo", ".glob", ".vok", ".vos", ".aux"):
                if ext == ".v" and name in keep:
                    continue          # a file that did not evaluate stays for diagnosis
                for p in (os.path.join(self.rundir, name + ext), os.path.join(self.rundir, "." + name + ext)):
                    try:
                        os.remove(p)
                    except OSError:
                        pass


def contracts_text(jobs):
    """Instantiates every oracle premise of the C13 theorems on all answers the real standard library gave in this run
    (coq/model/NumContracts.v, evaluated by vm_compute)."""
    return jobs.header("model.NumContracts") + "Definition contracts := Eval vm_compute in contract_verdicts T.\nPrint contracts.\n"


def contracts_verdict(status, flat, tabrecs):
    """Returns (report list, broken list)."""
    if status != "ok" or "contracts =" not in flat:
        return [], ["the oracle contracts of the C13 theorems could not be evaluated on the oracle tables (coqc %s): %s" % (status, flat[-400:])]
    verdicts = re.findall(r"\((\d+), \[([0-9; ]*)\]\)", flat.split("contracts =", 1)[1])
    if len(verdicts) != len(CONTRACTS):
        return [], ["oracle contract evaluation returned %d verdicts for %d premises: %s" % (len(verdicts), len(CONTRACTS), flat[-300:])]
    report, broken = [], []
    for (name, table, stmt, used), (n, bad) in zip(CONTRACTS, verdicts):
        idx = [int(x) for x in bad.split(";") if x.strip()]
        entry = {"hypothesis": name, "statement": stmt, "used_by": used, "oracle_table": table, "table_entries": len(tabrecs.get(table, [])),
                 "instances_checked": int(n), "failing": len(idx)}
        if idx:
            ex = [{k: v for k, v in tabrecs[table][i].items() if k not in ("k",)} for i in idx[:3] if i < len(tabrecs.get(table, []))]
            entry["failing_examples"] = ex
            broken.append("oracle contract %s (%s) fails on %d of %d instance(s) answered by the real library, e.g. on value %s" % (
                name, stmt, len(idx), int(n), json.dumps(ex[:2])[:400]))
        elif int(n) == 0:
            broken.append("oracle contract %s: no instance was checked (the harness asked the library nothing it applies to)" % name)
        report.append(entry)
    return report, broken


def check(run):
    fails = vlib.standard_prelude(run, UNITS, "num")
    broken = []
    if "forbidden" in fails:
        broken.append("forbidden declarations in the development: %s" % fails["forbidden"])
    if "go2coq" in fails:
        broken.append("translation of the numeric code of datacodec failed: " + fails["go2coq"].strip()[-600:])
    if "harness" in fails:
        broken.append("harness does not build against /repo: " + fails["harness"].strip()[-600:])

    # ---- proofs over the regenerated file
    with vlib.Lock():
        pr = vlib.coq_prop("C13")
    run.add_proof(pr)
    if not pr["ok"]:
        broken.append("props/C13.v or a dependency no longer checks: %s %s" % (pr["failed_at"], pr["errors"]))
    if run.tier == "thorough" and pr["ok"]:
        # re-check the compiled property file and everything it depends on with the independent checker
        with vlib.Lock():
            crc, cout = vlib.coqchk("C13")
        ctail = " ".join(cout.strip().split("\n")[-12:])
        run.coverage["coqchk"] = {"rc": crc, "tail": ctail[-1500:]}
        run.coverage["checker_cmd"] += " ; coqchk -silent -o -Q . GCNP GCNP.props.C13"
        if crc != 0:
            broken.append("coqchk rejects props/C13.vo: %s" % ctail[-400:])
    run.coverage["trusted_base"] += [
        "oracles (coq/base/GoNum.v, Section variable O): strconv.ParseInt/FormatInt, big.Int SetString/Text, IEEE-754 float64<->float32 conversion and ==, "
        "math.IsNaN, big.Float Float64/SetFloat64+Acc (per preset precision of the destination), time Parse/Format; each theorem that needs one states its "
        "contract as hypothesis (oracle_contract; the float premises: widening exact, == sound, IsNaN sound, NaN narrows to NaN, Float64 Exact => same value, "
        "SetFloat64: Acc() = Exact <=> value held = argument)",
        "the rounding mode of a *big.Float destination is not an input of the model (the SetFloat64 contract holds for every mode; the search runs 4 modes)",
        "every oracle premise is universally quantified; on every run it is instantiated (coq/model/NumContracts.v, vm_compute) on all answers the real library "
        "gave in that run - boundary, directed and random values, see coverage.oracle_contracts_checked - under the denotations godec (decimal strings) and "
        "f64_value / f32_value / bf_value (IEEE-754 bit patterns, big.Float mantissa*2^exponent); beyond those finitely many instances the premises remain trusted. "
        "time.Parse / time.Format (o_TimeParse, o_TimeFormat) carry no premise: no theorem says anything about the string (layout) branches",
        "model of time.Time as the instant (unix seconds, nanoseconds) and of *big.Int as an unbounded integer (coq/base/GoNum.v, GoInt.v)",
        "coq/model/NumWire.v: hand model of writeBigInt/readBigInt, compared with the compiled functions on every run; proved equal to coq/model/CqlWire.v's model, whose varint theorems (proofs/CqlVarintProofs.v, cql area) C13_varint_roundtrip imports",
        "platform: strconv.IntSize = 64",
    ]

    # ---- implementation run
    recs = []
    table_path = os.path.join(vlib.COQ, "gen", "numeric_table.json")
    try:
        table = json.load(open(table_path))
    except Exception:
        table = {}
    if "harness" not in fails:      # the search does not depend on the translator's table (the harness tolerates its absence)
        args = [table_path] + (["thorough"] if run.tier == "thorough" else [])
        rc, out, err = vlib.harness("num", args, run.seed)
        if rc != 0:
            broken.append("harness num failed rc=%s: %s" % (rc, err[-400:]))
        else:
            recs = [json.loads(l) for l in out.split("\n") if l.strip()]
    for r in recs:
        if r["k"] == "missing":
            broken.append("harness cannot reach %s: datacodec/verif_hooks.go does not export it" % r["name"])
    # helpers of conversions.go that the table does not cover would escape the theorem: every function of the file must be translated
    summ = next((r for r in recs if r["k"] == "sum"), None)

    # ---- (0) the premises about the standard library that the theorems carry, instantiated on everything the real library answered
    # ---- (a) correspondence: regenerated Gallina functions (and the hand model of the varint bytes) vs the compiled code.
    # Both are generated files evaluated by coqc (vm_compute): one file with the oracle tables, compiled once; the correspondence cut into
    # shards of at most SHARD cases (Definitions of at most PART cases, list literals of at most PIECE elements), at most MAX_PAR coqc at a time.
    contract_report = []
    corr = 0
    mism_found = []
    gen_ok = False
    shard_report = []
    if recs:
        targets = ["model/NumCases.vo", "model/NumContracts.vo"]
        if "go2coq" not in fails:
            targets += ["gen/Numeric_gen.vo", "model/NumWire.vo"]
        with vlib.Lock():
            ok_m, log = vlib.coq_make(targets)
            gen_ok = "go2coq" not in fails and os.path.exists(os.path.join(vlib.COQ, "gen", "Numeric_gen.vo")) and ok_m
            models_ok = ok_m or vlib.coq_make(targets[:2])[0]
        if not ok_m:
            broken.append("%s does not compile: %s" % (" / ".join(targets), " ".join(l for l in log.split("\n") if "Error" in l)[:400]))
        tabrecs = {}
        jobs = CoqJobs(recs, tabrecs)
        keep = []
        try:
            tok, tlog = jobs.compile_tables() if models_ok else (False, "model/NumCases.v does not compile")
            if not tok:
                broken.append("the oracle tables of this run do not compile (run/%s.v): %s" % (jobs.tables, tlog))
                keep.append(jobs.tables)
            else:
                todo = [(jobs.tag + "_contracts", contracts_text(jobs))]
                groups, shards = [], []
                if gen_ok:
                    try:
                        groups = build_cases(recs, table)
                        shards = shard_groups(groups)
                    except Exception as e:  # an unexpected record shape is a broken tie, not a crash
                        groups, shards = [], []
                        broken.append("cannot render the cases for the model: %r" % (e,))
                for si, gis in enumerate(shards):
                    body = ["Definition g%d : list bool := %s." % (k, groups[gi][2]) for k, gi in enumerate(gis)]
                    body.append("Definition mism := Eval vm_compute in filter (fun p => negb (match snd p with [] => true | _ => false end)) [%s]." % "; ".join(
                        "(%d, false_idx 0 g%d)" % (k, k) for k in range(len(gis))))
                    body.append("Print mism.")
                    todo.append(("%s_shard%d" % (jobs.tag, si), jobs.header("gen.Numeric_gen model.NumWire") + "\n".join(body) + "\n"))
                res = jobs.run(todo)
                status, flat = res[todo[0][0]]
                contract_report, cbroken = contracts_verdict(status, flat, tabrecs)
                broken += cbroken
                if cbroken and status != "ok":
                    keep.append(todo[0][0])
                for si, gis in enumerate(shards):
                    name = todo[1 + si][0]
                    status, flat = res[name]
                    ncases = sum(len(groups[gi][1]) for gi in gis)
                    what = "shard %d of %d (%s: groups '%s' .. '%s', %d cases)" % (si, len(shards), name, groups[gis[0]][0], groups[gis[-1]][0], ncases)
                    shard_report.append({"shard": si, "file": "run/%s.v" % name, "groups": len(gis), "cases": ncases, "status": status})
                    if status != "ok" or "mism =" not in flat:
                        keep.append(name)
                        broken.append("correspondence %s was not evaluated: coqc %s: %s" % (what, status if status != "ok" else "printed no verdict", flat[-400:]))
                        continue
                    corr += ncases
                    tail = flat.split("mism =", 1)[1]
                    if not tail.strip().startswith("[]"):
                        found = 0
                        for k, idxs in re.findall(r"\((\d+), \[([0-9; ]*)\]\)", tail):
                            gid, items, _ = groups[gis[int(k)]]
                            for i in [int(x) for x in idxs.split(";") if x.strip()][:5]:
                                mism_found.append({"group": gid, "case": items[i]})
                                found += 1
                        broken.append("correspondence: regenerated Gallina definitions disagree with the compiled code in %s, e.g. %s" % (
                            what, json.dumps(mism_found[-found:][:3])[:700] if found else tail[:300]))
        finally:
            jobs.cleanup(keep)
    run.coverage["oracle_contracts_checked"] = contract_report
    run.coverage["correspondence_shards"] = shard_report
    if contract_report:
        run.note("oracle contracts instantiated on the real library's answers: " + ", ".join(
            "%s %d" % (c["hypothesis"], c["instances_checked"]) for c in contract_report) +
            "; failing: %d" % sum(c["failing"] for c in contract_report))
    if shard_report:
        run.note("correspondence: %d cases in %d shard(s) (at most %d cases per coqc process, %d processes at a time), %d evaluated" % (
            sum(x["cases"] for x in shard_report), len(shard_report), SHARD, MAX_PAR, corr))

    # ---- (b) the property's own predicate on the implementation (directed search over boundary values, all pairs)
    findings = [r for r in recs if r["k"] == "viol"]
    # the same predicate on the helper / switch observations: an Ok result must be the same mathematical integer
    for r in recs:
        if r["k"] == "h":
            for i, o in zip(r["ins"], r["outs"]):
                if o is not None and int(o) != int(i):
                    findings.append({"cql": "helper", "dir": "convert", "gotype": r["name"], "value": i, "observed": o, "expected": "error or " + i})
        elif r["k"] == "to" and r["ok"] and not r.get("nil") and "z" in r["p"] and r["c"] not in ("G_float32", "G_float64", "G_pfloat32", "G_pfloat64") \
                and not r["name"].startswith("convertToFloat"):
            if int(r["val"]) != int(r["p"]["z"]):
                findings.append({"cql": r["name"], "dir": "encode", "gotype": r["go"], "value": r["p"]["z"], "observed": r["val"], "expected": "error or the same integer"})
        elif r["k"] == "to" and r["ok"] and not r.get("nil") and r["name"] == "convertToFloat64" and "bf" in r["p"]:
            # *big.Float source: the float64 handed on must be the same real number (judged with exact rationals)
            want, got = bf_real(r["p"]["bf"]), f64_real(r["val"])
            if want != got:
                findings.append({"cql": r["name"], "dir": "encode", "gotype": r["go"], "value": "%s * 2^%s" % tuple(r["p"]["bf"]),
                                 "observed": "float64 bits %s = %s" % (r["val"], got), "expected": "error or the same real number"})
        elif r["k"] == "from" and r["ok"] and not r["null"] and not r["name"].startswith("convertFromFloat") and "z" in r.get("st", {}):
            if int(r["st"]["z"]) != int(r["val"]):
                findings.append({"cql": r["name"], "dir": "decode", "gotype": r["go"], "value": r["val"], "observed": r["st"]["z"], "expected": "error or the same integer"})

    counts = summ["counts"] if summ else {}

    # ---- (b') the translation, a proof or the correspondence broke and the normal search found nothing: widen the search on the
    #      implementation (harness "deep": the predicate alone, 10x the random integers, floats and *big.Floats) before giving up
    deep = None
    if broken and not findings and "harness" not in fails:
        rc, out, err = vlib.harness("num", [table_path, "deep"], run.seed, 900)
        drecs = []
        for l in out.split("\n"):
            if l.strip():
                try:
                    drecs.append(json.loads(l))
                except ValueError:
                    pass
        findings = [r for r in drecs if r["k"] == "viol"]
        deep = next((r["counts"] for r in drecs if r["k"] == "sum"), {"rc": rc, "stderr": err[-300:]})
        run.note("widened search after a broken obligation: %s evaluations, %d failing input(s)" % (deep.get("pred"), len(findings)))
    run.coverage["evaluations"] = corr + counts.get("pred", 0)
    run.coverage["traces_validated_against_impl"] = corr
    run.coverage["distinct_nontrivial"] = counts.get("pred_pairs", 0)
    run.coverage["rule"] = ("implementation: every helper of conversions.go, the four math.go functions, every convertTo*/convertFrom* switch with every Go source / "
                            "destination type (values, pointers, nil pointers, untyped nil, unsupported types) and the read*/write* functions on the property's boundary "
                            "set (0, +-1, +-2^7, 2^8, +-2^15, 2^16, +-2^31, 2^32, +-2^63, 2^64, 2^128 and neighbours) plus seeded random values; the same inputs through "
                            "the regenerated Gallina functions inside coqc (vm_compute); non-trivial = a distinct (CQL type, direction, Go type) pair whose public "
                            "Encode/Decode was judged with math/big on all boundary values; floating point: *big.Float -> double/float and float64 -> float with values "
                            "that are not exactly representable (below 2^-1022 [2^-126] and off the subnormal grid 2^-1074 [2^-149], more than 53 [24] significant "
                            "bits, between MaxFloat64 [MaxFloat32] and the overflow threshold, at and above it) in directed classes and seeded random values, "
                            "each judged by exact comparison of the stored IEEE value with the source: a conversion that loses information must be refused; "
                            "double -> *big.Float destinations preset to precision 0, 1, 10, 24, 52, 53, 64, 200 (4 rounding modes below 53 bits) with mantissas of "
                            "exactly 1..53 significant bits: no error => the destination holds the wire value exactly (big.Float.Cmp); NaN bit patterns (quiet, "
                            "signalling, negative, payloads) through float64 -> CQL float, CQL double -> *float32, float32 -> CQL double -> *float32: error or NaN")
    run.coverage["samples"] = [r for r in recs if r["k"] in ("to", "from")][:3] + [{"pairs": (summ or {}).get("pairs", [])[:12]}]
    run.coverage["exhaustive"] = False
    run.coverage["input_distribution"] = dict([(k, v) for k, v in counts.items() if not isinstance(v, dict)] +
                                              [("bigfloat_" + k, v) for k, v in (counts.get("bigfloat") or {}).items()])
    run.coverage["correspondence_mismatches"] = mism_found[:10]
    if deep is not None:
        run.coverage["widened_search"] = deep
    obs = [r for r in recs if r["k"] == "obs"]
    if obs:
        run.coverage["observations"] = obs
    bfc = counts.get("bigfloat") or {}
    if bfc:
        run.note("*big.Float -> double: %s values (directed classes subnormal / >53 bits / top of the range + seeded random), %s not representable, "
                 "%s refused, %s accepted" % (bfc.get("cases"), bfc.get("not_representable"), bfc.get("refused"), bfc.get("accepted")))
        run.note("double -> *big.Float of preset precision (0, 1, 10, 24, 52, 53, 64, 200): %s decodes, %s of values the destination cannot hold exactly, "
                 "%s refused, %s accepted (each accepted one compared exactly)" % (bfc.get("dec_cases"), bfc.get("dec_not_representable"), bfc.get("dec_refused"),
                                                                                  bfc.get("dec_accepted")))
        run.note("NaN through the narrowing paths (float64 -> float, double -> *float32, float32 -> double -> *float32, float -> *float64): %s cases, %s delivered "
                 "(each as NaN), %s refused" % (bfc.get("nan_cases"), bfc.get("nan_accepted"), bfc.get("nan_refused", 0)))

    # ---- verdict
    known = vlib.known_findings("C13")
    seen = set()
    for f in findings:
        key = (f.get("cql"), f.get("dir"), f.get("gotype"), f.get("value"))
        if key in seen:
            continue
        seen.add(key)
        k = next((e for e in known if e.get("match") and all(str(f.get(a)) == str(v) for a, v in e["match"].items())), None)
        if k:
            run.known(k.get("what", "%s %s %s value %s: %s" % (f.get("cql"), f.get("dir"), f.get("gotype"), f.get("value"), f.get("observed"))))
        else:
            if len(run.violations) < 10:
                run.violation({"property": "C13", "failing_input": f,
                               "how_to_replay": "datacodec.<Codec of the CQL type>.Encode / Decode (protocol v5) with a Go value of the named type holding the value; "
                                                "compare with the expected mathematical value. A *big.Float value is written m * 2^e: "
                                                "new(big.Float).SetMantExp(new(big.Float).SetInt(m), e); e.g. datacodec.Double.Encode(x, primitive.ProtocolVersion5) "
                                                "must return an error unless the 8 bytes are exactly x. A destination '*big.Float(prec=P[,mode=M])' is "
                                            "new(big.Float).SetPrec(P)[.SetMode(big.M)]: datacodec.Double.Decode(<8 bytes of the value>, dest, v5) must return an error "
                                            "unless dest.Cmp(new(big.Float).SetFloat64(value)) == 0",
                               "broken": broken})
    if broken and not run.violations:
        # a mismatch between model and code is itself located on a concrete input
        run.violation({"property": "C13", "broken": broken, "mismatching_cases": mism_found[:10],
                       "note": "a proof obligation, the translation or the model/code correspondence no longer checks and the search on the implementation found no input "
                               "that violates the property"}, no_input=True)
