"""C02 - emitted bytes conform to the native-protocol specification of the version."""
import vlib
import framecommon as fc

MANIFEST = {
    "text": ("An independent serializer transcribed from specs/*.spec (coq/spec/SpecNotation.v, SpecMsg.v, SpecFrame.v, with section citations, "
             "written without reading the Go code) and theorems that the Gallina mirror of the Go encoder emits exactly those bytes: header layout "
             "(direction bit, stream-id width, flags) for every valid header; the body of every message kind of every version where the "
             "specification defines a layout; whole frames; specification-formatted bytes decode to the frame they denote (with C01); and the "
             "rejection clause over ALL 2^16 (version byte, opcode) pairs for arbitrary remaining bytes (kernel computation lifted by "
             "forallb_forall). Because the tie to the code compares bytes, a symmetric encoder+decoder deviation - invisible to any round-trip "
             "test - is caught: this is how the swapped order of warnings and custom payload was found (fixed in /repo). On every run the real "
             "encoder's bytes are compared with the spec serializer directly (not via the model), and the real DecodeHeader is swept over header "
             "mutations."),
    "technique": "Rocq proof of model-encoder = independent spec serializer + implementation bytes compared with the spec serializer",
    "design_ref": "3 C02",
    "note": ("coq/spec/*.v is a human transcription of the specification texts (choices where the texts are ambiguous are listed in notes/spec.md); "
             "inputs for which a version's specification defines no layout (msg_clean = false) are not compared."),
}


def check(run):
    broken, findings = [], []
    fails, pr = fc.frame_prelude(run, "C02", broken)
    run.coverage["trusted_base"].append("coq/spec/SpecNotation.v, SpecMsg.v, SpecFrame.v: hand transcription of specs/native_protocol_v2..v5.spec and dse_protocol_v1..v2.spec")
    n = 300 if run.tier == "quick" else 20000
    m = 3000 if run.tier == "quick" else 40000
    recs, mal = [], []
    if "harness" not in fails:
        recs, err = fc.run_harness(run, "gen", n, ["thorough"] if run.tier == "thorough" else [])
        if err:
            broken.append(err)
        mal, err = fc.run_harness(run, "malformed", m, ["thorough"] if run.tier == "thorough" else [])
        if err:
            broken.append(err)
    # hand-written specification-formatted frames the encoder never emits (aliases, alternative legal encodings)
    sb = []
    if "harness" not in fails:
        sb, err = fc.run_harness(run, "specbytes", 0)
        if err:
            broken.append(err)
        if not sb and not err:
            broken.append("harness-frame specbytes printed no record")
    sbcases, lenient = [], []
    for r in sb:
        if r.get("expect_error"):
            if r.get("decode") != "err" and not r.get("header_clause"):
                lenient.append(r.get("name"))      # body bytes the version gives no meaning to, accepted: outside the statement, recorded only
            elif r.get("decode") != "err":
                findings.append({"id": r["id"], "kind_of_failure": "spec-bytes-decode", "name": r.get("name"), "bytes": r.get("bytes"),
                                 "what": "bytes the specification of version %s does not define (%s) were not refused: decode=%s" % (r.get("version"), r.get("name"), r.get("decode"))})
            sbcases.append((r["id"], "Z.eqb (dec_class None %s) %d" % (fc.hxs(r["bytes"]), 1 if r.get("decode") == "err" else 0)))
        else:
            if r.get("decode") != "ok" or r.get("equal") is not True:
                findings.append({"id": r["id"], "kind_of_failure": "spec-bytes-decode", "name": r.get("name"), "bytes": r.get("bytes"),
                                 "what": "specification-formatted bytes (%s) do not decode to the message they denote: decode=%s %s" % (r.get("name"), r.get("decode"), r.get("why", ""))})
            if r.get("decode") == "ok":
                sbcases.append((r["id"], "dec_eq None %s %s" % (fc.hxs(r["bytes"]), r["expected"] if r.get("equal") else r["decoded"])))
            else:       # the model must fail where the implementation fails
                sbcases.append((r["id"], "Z.eqb (dec_class None %s) 1" % fc.hxs(r["bytes"])))
    valid = [r for r in recs if r.get("valid", True) and r.get("encode") == "ok" and r.get("deterministic")
             and (r.get("compression") == "none" or not (r.get("flags", 0) & 1))]
    sel, skipped = fc.select_records(valid, run.tier)
    prelude = fc.FRAME_PRELUDE + [
        "From GCNP Require Import spec.SpecNotation spec.SpecMsg spec.SpecFrame spec.SpecClean.",
        # 0 = the specification gives no layout for this input (not compared), 1 = bytes agree, 2 = bytes differ
        "Definition spec_cmp (f : Frame) (bs : list Z) : Z :=",
        "  if negb (frame_clean f) then 0 else match spec_frame_of f with Some b => if list_beq Z Z.eqb b bs then 1 else 2 | None => 2 end.",
    ]
    cases, ncases = [], []
    for r in sel:
        cases.append((r["id"], "negb (Z.eqb (spec_cmp %s %s) 2)" % (r["frame"], fc.hxs(r["bytes"]))))
        ncases.append((r["id"], "Z.eqb (spec_cmp %s %s) 1" % (r["frame"], fc.hxs(r["bytes"]))))
    # rejection clause: header mutations on the real DecodeHeader vs the specification's acceptance predicate
    hdr = [r for r in mal if r.get("entry") == "header" and r.get("outcome") in ("ok", "err") and len(r.get("input", "")) >= 18]
    hcases = []
    for r in hdr:
        vb, inp = int(r["input"][0:2], 16), r["input"]
        v = vb & 0x7f
        hl = 8 if v == 2 else 9
        if len(inp) < 2 * hl:
            continue
        op = int(inp[2 * (hl - 5):2 * (hl - 5) + 2], 16)
        hcases.append((r["id"], "Bool.eqb (spec_header_acceptable_strict %d %d) %s" % (vb, op, "true" if r["outcome"] == "ok" else "false")))
    compared = 0
    if False and not pr["ok"] and hcases:
        # the proofs are broken: the rejection clause can still be searched, it needs only the specification side
        with vlib.Lock():
            oks, _ = vlib.coq_make(["spec/SpecFrame.vo", "model/Hex.vo"])
        if oks:
            hpre = ["From GCNP Require Import spec.SpecFrame."]
            hm, herr = fc.eval_cases("Cases_C02h", hpre, hcases)
            hb = {r["id"]: r for r in hdr}
            for cid in ([] if herr else hm):
                r = hb.get(cid, {})
                findings.append({"id": cid, "kind_of_failure": "header-acceptance", "input": r.get("input"), "outcome": r.get("outcome"), "origin": r.get("origin"),
                                 "what": "DecodeHeader %s a header the specification %s (version byte / opcode / direction)" % (
                                     "accepts" if r.get("outcome") == "ok" else "rejects", "rejects" if r.get("outcome") == "ok" else "accepts")})
    can_eval = pr["ok"]
    if not pr["ok"]:
        # a proof is broken: the comparison itself needs only definitions (models, the specification side, SpecClean)
        with vlib.Lock():
            can_eval, _ = vlib.coq_make(["spec/SpecClean.vo", "model/FrameCanon.vo", "model/FrameEq.vo", "model/Hex.vo", "model/Mutators.vo"])
    if can_eval and (cases or hcases):
        mism, cerr = fc.eval_cases("Cases_C02", prelude, cases + hcases + sbcases)
        if cerr:
            broken.append(cerr)
        else:
            byid = {r["id"]: r for r in sel}
            hb = {r["id"]: r for r in hdr}
            for cid in mism:
                if cid.startswith("sb"):
                    broken.append("correspondence: the model decodes the hand-written specification bytes %s differently from the expectation / the implementation" % cid)
                elif cid in byid:
                    r = byid[cid]
                    f = fc.slim(r)
                    f.update({"kind_of_failure": "spec-bytes", "what": "frame %s v%s flags=%s: the bytes emitted by the implementation differ from the "
                              "specification's layout (coq/spec/SpecFrame.v spec_frame)" % (r.get("kind"), r.get("version"), r.get("flags"))})
                    findings.append(f)
                else:
                    r = hb.get(cid, {})
                    findings.append({"id": cid, "kind_of_failure": "header-acceptance", "input": r.get("input"), "outcome": r.get("outcome"), "origin": r.get("origin"),
                                     "what": "DecodeHeader %s a header the specification %s (version byte / opcode / direction)" % (
                                         "accepts" if r.get("outcome") == "ok" else "rejects", "rejects" if r.get("outcome") == "ok" else "accepts")})
        # how many were really compared (spec defines a layout)
        nm, cerr2 = fc.eval_cases("Cases_C02n", prelude, ncases)
        compared = len(ncases) - len(nm) if not cerr2 else 0
    c = run.coverage
    c["evaluations"] = len(cases) + len(hcases) + len(sbcases)
    c["traces_validated_against_impl"] = compared + len(hcases)
    c["distinct_nontrivial"] = len({r.get("bytes") for r in sel})
    c["rule"] = ("bytes emitted by the real EncodeFrame for generated version-valid frames (deterministic ones: no map with >= 2 entries) compared inside coqc "
                 "with the independent spec serializer; frames for which the version's specification defines no layout are counted but not compared; the real "
                 "DecodeHeader on header mutations (all version bytes x direction, all opcodes) compared with spec_header_acceptable_strict (an opcode must be known to that version: 0xFF only in DSE)")
    c["samples"] = [fc.slim(r, ("id", "kind", "version", "flags", "bytes")) for r in sel[:5]]
    c["frames_with_spec_layout_compared"] = compared
    c["frames_without_spec_layout"] = len(ncases) - compared
    c["header_cases"] = len(hcases)
    c["hand_written_spec_frames"] = len(sb)
    c["lenient_decodes_not_judged"] = lenient
    fc.verdict(run, "C02", findings, broken, "harness-frame gen with VERIF_SEED=%d reproduces the record by id; compare `bytes` with spec_frame_of in coq/spec/SpecClean.v" % run.seed)
