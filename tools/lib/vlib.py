"""Shared machinery of /verif/check: builds, Coq runs, evidence, violations, known findings."""
import fcntl
import json
import os
import re
import subprocess
import sys
import time

ROOT = os.path.dirname(os.path.dirname(os.path.dirname(os.path.abspath(__file__))))
COQ = os.path.join(ROOT, "coq")
BUILD = os.path.join(ROOT, "build")
REPO = os.environ.get("VERIF_REPO", "/repo")
EVID = os.path.join(ROOT, "evidence")
REPLAY = os.path.join(EVID, "replay")
NCPU = os.cpu_count() or 4

GOENV = dict(os.environ, GOFLAGS="-mod=mod", GOPROXY="off", GOSUMDB="off", GOTOOLCHAIN="local",
             GOCACHE=os.environ.get("GOCACHE", os.path.join(BUILD, "gocache")))

TRUSTED_BASE_COMMON = [
    "Coq 8.16.1 kernel and coqc (vm_compute used for finite computations; native_compute never used)",
    "tools/go2coq: Go's go/parser+go/types and the translation table of DESIGN.md 2.1 (output cross-checked against the compiled code by the correspondence run)",
    "coq/base/GoInt.v: semantics given to Go fixed-width integer operations (two's-complement wrap, truncated division)",
    "tools/harness (Go) and tools/lib (python): case generation, diffing, evidence writing",
    "platform: 64-bit int",
]


def sh(cmd, cwd=None, timeout=None, env=None, input=None):
    """Run a command, return (rc, combined output). rc 124 on timeout."""
    try:
        p = subprocess.run(cmd, cwd=cwd, env=env, input=input, stdout=subprocess.PIPE, stderr=subprocess.STDOUT,
                           timeout=timeout, shell=isinstance(cmd, str), text=True, errors="replace")
        return p.returncode, p.stdout
    except subprocess.TimeoutExpired as e:
        out = e.stdout or ""
        if isinstance(out, bytes):
            out = out.decode(errors="replace")
        return 124, out + "\n[timeout after %ss]" % timeout


class Lock:
    """Serialises builds (go2coq output, harness binary, coq .vo files) between concurrent checks."""

    def __init__(self, name="build"):
        os.makedirs(BUILD, exist_ok=True)
        self.path = os.path.join(BUILD, "." + name + ".lock")

    def __enter__(self):
        self.f = open(self.path, "w")
        fcntl.flock(self.f, fcntl.LOCK_EX)
        return self

    def __exit__(self, *a):
        fcntl.flock(self.f, fcntl.LOCK_UN)
        self.f.close()


def _newer(srcdir, target):
    if not os.path.exists(target):
        return True
    t = os.path.getmtime(target)
    for d, _, fs in os.walk(srcdir):
        for f in fs:
            if os.path.getmtime(os.path.join(d, f)) > t:
                return True
    return False


def build_go2coq():
    src = os.path.join(ROOT, "tools", "go2coq")
    target = os.path.join(BUILD, "go2coq")
    if _newer(src, target):
        rc, out = sh(["go", "build", "-o", target, "."], cwd=src, env=GOENV, timeout=600)
        if rc != 0:
            raise RuntimeError("go2coq does not build:\n" + out)
    return target


def run_go2coq(units="all"):
    """Regenerate coq/gen from /repo's working tree. Returns (ok, log)."""
    exe = build_go2coq()
    rc, out = sh([exe, "-repo", REPO, "-out", os.path.join(COQ, "gen"), "-units", units], env=GOENV, timeout=600)
    return rc == 0, out


def build_harness(area):
    """Build tools/harness/cmd/<area> against /repo's current working tree with hooks enabled. Returns (ok, log)."""
    src = os.path.join(ROOT, "tools", "harness")
    target = os.path.join(BUILD, "harness-" + area)
    try:
        with open(os.path.join(REPO, "go.sum")) as f, open(os.path.join(src, "go.sum"), "w") as g:
            g.write(f.read())
    except OSError:
        pass
    extra = []
    if os.path.realpath(REPO) != "/repo":
        # VERIF_REPO points at another tree (a scratch copy carrying a trial edit): same module, other replace target
        modfile = os.path.join(BUILD, "harness-%s.mod" % area)
        with open(os.path.join(src, "go.mod")) as f, open(modfile, "w") as g:
            g.write(f.read().replace("=> /repo", "=> " + os.path.realpath(REPO)))
        try:
            with open(os.path.join(src, "go.sum")) as f, open(modfile[:-4] + ".sum", "w") as g:
                g.write(f.read())
        except OSError:
            pass
        extra = ["-modfile=" + modfile]
    rc, out = sh(["go", "build", "-tags", "verif"] + extra + ["-o", target, "./cmd/" + area], cwd=src, env=GOENV, timeout=900)
    return rc == 0, out


def harness(area, args, seed, timeout=600, input=None, mem_kb=8 * 1024 * 1024):
    """Run build/harness-<area> with the given arguments; returns (rc, stdout, stderr)."""
    env = dict(GOENV, VERIF_SEED=str(seed))
    cmd = "ulimit -v %d; exec %s %s" % (mem_kb, os.path.join(BUILD, "harness-" + area), " ".join("'%s'" % a for a in args))
    try:
        p = subprocess.run(["bash", "-c", cmd], env=env, input=input, stdout=subprocess.PIPE, stderr=subprocess.PIPE,
                           timeout=timeout, text=True, errors="replace")
        return p.returncode, p.stdout, p.stderr
    except subprocess.TimeoutExpired as e:
        return 124, (e.stdout or b"").decode(errors="replace") if isinstance(e.stdout, bytes) else (e.stdout or ""), "timeout"


def mkcoqproject():
    sh([os.path.join(ROOT, "tools", "mkcoqproject.sh")], timeout=120)


def coq_make(targets, timeout=1500):
    """Full .vo build of the given targets (paths relative to coq/). Returns (ok, log)."""
    mkcoqproject()
    rc, out = sh(["make", "-j%d" % NCPU, "-k"] + list(targets), cwd=COQ, timeout=timeout)
    return rc == 0, out


def strip_comments(text):
    out, depth, i, n = [], 0, 0, len(text)
    in_str = False
    while i < n:
        if depth == 0 and text[i] == '"':
            in_str = not in_str
            out.append(text[i]); i += 1; continue
        if not in_str and text.startswith("(*", i):
            depth += 1; i += 2; continue
        if not in_str and depth > 0 and text.startswith("*)", i):
            depth -= 1; i += 2; continue
        if depth == 0:
            out.append(text[i])
        i += 1
    return "".join(out)


FORBIDDEN = [r"\bAdmitted\b", r"\badmit\b", r"\bAxiom\b", r"\bAxioms\b(?!:)", r"\bParameter\b", r"\bParameters\b",
             r"\bConjecture\b", r"Admit\s+Obligations", r"Unset\s+Guard\s+Checking", r"Unset\s+Positivity\s+Checking",
             r"Unset\s+Universe\s+Checking", r"bypass_check", r"type-in-type", r"impredicative-set",
             r"\bgive_up\b", r"native_compute"]


def forbidden_scan():
    """Fail closed: no axiom-like declaration anywhere in the development. Returns list of hits."""
    hits = []
    for d, dirs, fs in os.walk(COQ):
        # coq/run holds generated, evaluation-only case files (written and deleted by the checks): not part of the development
        if os.path.basename(d) == "run" and os.path.dirname(d) == COQ:
            dirs[:] = []
            continue
        for f in fs:
            if not f.endswith(".v"):
                continue
            p = os.path.join(d, f)
            txt = strip_comments(open(p, errors="replace").read())
            for pat in FORBIDDEN:
                for m in re.finditer(pat, txt):
                    hits.append("%s: %s" % (os.path.relpath(p, COQ), m.group(0)))
            # Variable / Hypothesis / Context outside a Section
            depth = 0
            for line in txt.split("\n"):
                s = line.strip()
                if re.match(r"Section\s+\w+\s*\.", s):
                    depth += 1
                elif re.match(r"End\s+\w+\s*\.", s) and depth > 0:
                    depth -= 1
                elif depth == 0 and re.match(r"(Variables?|Hypothes[ie]s|Context)\b", s):
                    hits.append("%s: %s outside a section" % (os.path.relpath(p, COQ), s.split()[0]))
    for f in ("_CoqProject",):
        txt = open(os.path.join(COQ, f)).read() if os.path.exists(os.path.join(COQ, f)) else ""
        for pat in ("type-in-type", "impredicative-set", "bypass"):
            if pat in txt:
                hits.append("_CoqProject: " + pat)
    return hits


def coq_prop(prop, extra_targets=(), timeout=1500):
    """(Re)check props/<prop>.v and everything it depends on. Returns a dict."""
    vfile = os.path.join(COQ, "props", prop + ".v")
    for ext in (".vo", ".glob", ".vok", ".vos"):
        try:
            os.remove(os.path.join(COQ, "props", prop + ext))
        except OSError:
            pass
    src = strip_comments(open(vfile).read())
    theorems = re.findall(r"^\s*(?:Theorem|Corollary)\s+(\w+)", src, re.M)
    ok, log = coq_make(["props/%s.vo" % prop] + list(extra_targets), timeout=timeout)
    closed = log.count("Closed under the global context")
    axioms = re.findall(r"^Axioms:\n((?:.+\n)+?)(?=\S|\Z)", log, re.M)
    # files that failed
    failed = re.findall(r'File "\./([^"]+)", line (\d+)', log)
    errs = [l for l in log.split("\n") if l.startswith("Error") or "Error:" in l]
    discharged = closed + len(axioms)
    if ok:
        discharged = len(theorems)  # every theorem of the file compiled; Print Assumptions output counted above
    return {
        "ok": ok, "theorems": theorems, "obligations": len(theorems), "discharged": min(discharged, len(theorems)) if not ok else len(theorems),
        "closed": closed, "axioms": [a.strip() for a in axioms], "failed_at": failed[:3], "errors": errs[:5], "log": log,
        "checker_cmd": "make -C coq -j%d props/%s.vo   (coq_makefile, full .vo build; coqc 8.16.1)" % (NCPU, prop),
    }


EVAL_HEADER = ("From Coq Require Import ZArith List String Bool.\nImport ListNotations.\nOpen Scope Z_scope.\nOpen Scope string_scope.\n"
               "Set Printing Depth 1000000.\nSet Printing Width 1000000.\n")


def coq_eval(name, text, timeout=900):
    """Compile coq/run/<name>.v (a file of Eval/Print commands over the built model); returns (rc, stdout)."""
    rundir = os.path.join(COQ, "run")
    os.makedirs(rundir, exist_ok=True)
    path = os.path.join(rundir, name + ".v")
    with open(path, "w") as f:
        f.write(text)
    rc, out = sh(["coqc", "-Q", ".", "GCNP", "-w", "-all", "run/%s.v" % name], cwd=COQ, timeout=timeout)
    if rc == 0:
        try:
            os.remove(path)        # keep the case file only when it failed to evaluate (for diagnosis)
        except OSError:
            pass
    for ext in (".vo", ".glob", ".vok", ".vos", ".aux"):
        for p in (os.path.join(rundir, name + ext), os.path.join(rundir, "." + name + ext)):
            try:
                os.remove(p)
            except OSError:
                pass
    return rc, out


def coqchk(prop, timeout=3000):
    rc, out = sh(["coqchk", "-silent", "-o", "-Q", ".", "GCNP", "GCNP.props.%s" % prop], cwd=COQ, timeout=timeout)
    return rc, out


def zlit(v):
    v = int(v)
    return "(%d)" % v if v < 0 else str(v)


def coq_str(s):
    for ch in s:
        if ord(ch) < 32 or ord(ch) > 126:
            raise ValueError("non printable in coq string")
    return '"' + s.replace('"', '""') + '"%string'


def hexbytes(b):
    return '(hx "%s")' % b.hex()


def known_findings(prop):
    path = os.path.join(ROOT, "known_findings.jsonl")
    res = []
    if os.path.exists(path):
        for line in open(path):
            line = line.strip()
            if not line or line.startswith("#"):
                continue
            e = json.loads(line)
            if e.get("property") == prop and e.get("status", "known") == "known":
                res.append(e)
    return res


class Run:
    def __init__(self, prop, tier, level="proof"):
        self.prop, self.tier, self.level = prop, tier, level
        self.seed = int(os.environ.get("VERIF_SEED", "1") or 1)
        self.t0 = time.time()
        self.violations = []      # (replay_obj, no_input)
        self.known_lines = []
        self.coverage = {"obligations": 0, "discharged": 0, "checker_cmd": "", "trusted_base": list(TRUSTED_BASE_COMMON),
                         "evaluations": 0, "distinct_nontrivial": 0, "rule": "", "samples": [],
                         "traces_validated_against_impl": 0}
        self.assumptions = []
        self.notes = []
        os.makedirs(REPLAY, exist_ok=True)

    def note(self, s):
        self.notes.append(s)
        print("[%s] %s" % (self.prop, s), flush=True)

    def add_proof(self, pr):
        c = self.coverage
        c["obligations"] += pr["obligations"]
        c["discharged"] += pr["discharged"]
        c["checker_cmd"] = (c["checker_cmd"] + " ; " if c["checker_cmd"] else "") + pr["checker_cmd"]
        c.setdefault("theorems", []).extend(pr["theorems"])
        if pr["axioms"]:
            c["trusted_base"].append("Print Assumptions reports axioms: " + " | ".join(pr["axioms"]))
        else:
            c["trusted_base"].append("Print Assumptions under every theorem of props/%s.v: Closed under the global context (%d of %d)" % (self.prop, pr["closed"], pr["obligations"]))

    def known(self, what):
        line = "KNOWN-FINDING: property=%s %s" % (self.prop, what)
        if line in self.known_lines:      # one line per listed finding, however many inputs hit it
            return
        self.known_lines.append(line)
        print(line, flush=True)

    def violation(self, replay, no_input=False):
        n = len(self.violations) + 1
        path = os.path.join(REPLAY, "%s-%d.json" % (self.prop, n))
        with open(path, "w") as f:
            json.dump(replay, f, indent=1, default=str)
        self.violations.append(path)
        line = "VIOLATION property=%s replay=%s" % (self.prop, path)
        if no_input:
            line += " no-failing-input-found"
        print(line, flush=True)

    def finish(self):
        c = self.coverage
        c["notes"] = self.notes
        if self.known_lines:
            c["known_findings_reported"] = self.known_lines
        ev = {"property_id": self.prop, "tier": self.tier, "seed": self.seed, "level": self.level, "coverage": c,
              "assumptions": self.assumptions, "wall_s": round(time.time() - self.t0, 2), "violations": len(self.violations)}
        os.makedirs(EVID, exist_ok=True)
        with open(os.path.join(EVID, self.prop + ".json"), "w") as f:
            json.dump(ev, f, indent=1, default=str)
        print("[%s] %s tier: obligations %d/%d discharged, %d evaluations (%d distinct non-trivial), %d violation(s), %.1fs" % (
            self.prop, self.tier, c["discharged"], c["obligations"], c["evaluations"], c["distinct_nontrivial"],
            len(self.violations), time.time() - self.t0), flush=True)
        return 1 if self.violations else 0


def standard_prelude(run, units, harness_area=None):
    """Steps 1-2 of every check: regenerate, rebuild harness, forbidden-word scan. Returns dict of failures."""
    fails = {}
    with Lock():
        if units:
            ok, log = run_go2coq(units)
            if not ok:
                fails["go2coq"] = log
        if harness_area:
            ok, log = build_harness(harness_area)
            if not ok:
                fails["harness"] = log
    hits = forbidden_scan()
    if hits:
        fails["forbidden"] = hits
    return fails
