"""Shared by tools/props/C09.py, C10.py, C16.py: histories through the real in-flight handler (harness area
`inflight`) compared with coq/model/Inflight.v under vm_compute, plus the verdicts of the harness monitors."""
import json
import os
import re
from concurrent.futures import ThreadPoolExecutor

import vlib
from vlib import zlit

AREA = "inflight"
HOOKS = ["client/verif_hooks.go"]

CASE_HEADER = """From Coq Require Import ZArith List Bool.
From GCNP Require Import model.Inflight.
Import ListNotations. Open Scope Z_scope.
Set Printing Depth 1000000. Set Printing Width 1000000.
Definition M := Send 0. Definition X := Send. Definition S := CSend. Definition W := CTake.
Definition D (k : Z) := Deliver k false 0. Definition L (k : Z) := Deliver k true 0.
Definition R := Recv. Definition T := Tick. Definition C := Close. Definition E := Event 0.
Definition rp (n : Z) (o : op) : list op := repeat o (Z.to_nat n).
Definition c (i : Z) (conn : bool) (lv n p t : Z) (ops : list op) (e : list Z) := mkCase i conn lv n p t ops e.
"""

TRUSTED = [
    "coq/model/Inflight.v is a hand-written model of client/inflight.go (+ Send / processIncomingFrame of client.go); it is tied to the "
    "compiled code only by the correspondence run over operation histories (exhaustive to a depth bound for N<=3, seeded random beyond)",
    "atomicity of the modelled actions in Go (one Go statement between synchronisation points = one LTS action), sync.RWMutex, channel and "
    "context semantics of the Go runtime; interleavings on the real code are not forced, only read and stress-run",
    "client/verif_hooks.go (build tag verif): forwards to the unexported functions and reads state; error classes are recognised by the "
    "fmt.Errorf text because the library has no sentinel errors",
]


# which monitor verdicts speak about which property (a verdict of another property is that property's check to report)
# Watchdog verdicts (a call into the library that never returns, see cmd/inflight/watchdog.go): `send-blocked` is C09's
# ("refused with an error rather than blocked"), `receiver-blocked` is C10's (the frames behind the blocked one are never
# delivered to their requests; each such frame of the history is also reported as `delivery-failed`) and C16's ("nothing
# ... deadlocks"), `close-hangs` is C16's; `stalled` = the process deadline expired inside a history (any of the three).
# `timeout-early` (a request failed with the timeout error although its frames were never timeout/2 apart) is C16's last
# sentence and C10's "delivers all its pages ... and completes it on the last page".
KINDS = {
    "C09": {"id-mismatch", "id-out-of-bounds", "duplicate-id", "over-capacity", "accepted-after-close", "header-not-reset", "refused-with-request",
            "refused-but-registered", "conservation", "managed-flag", "panic", "recycling", "harness", "explicit-id-race", "send-blocked", "stalled", "under-capacity", "last-frame-misjudged"},
    "C10": {"misrouted", "unknown-id-result", "delivery-count", "last-not-complete", "early-complete", "delivery-failed", "event-to-request",
            "wrong-pages", "panic", "harness", "receiver-blocked", "timeout-early", "stalled", "event-lost", "last-frame-misjudged"},
    "C16": {"not-done-after-close", "no-error-after-close", "registered-after-close", "done-vs-closed", "err-without-done", "accepted-after-close",
            "panic", "goroutine-leak", "close-hangs", "receiver-blocked", "send-blocked", "worker-crash", "timeout-missing", "timeout-early", "harness",
            "stalled", "accept-blocked", "state-wrong", "request-stuck", "handshake-hangs"},
}


def op_to_coq(o):
    k = o[0]
    a = o[1:]
    if k == "M":
        return "M"
    if k == "C":
        return "C"
    if k == "E":
        return "E"
    if k == "W":
        return "W"
    return "%s %s" % (k, zlit(int(a)))


def zlist(vals, chunk=1500):
    """A Coq list literal; long ones are split with ++ (the type checker's stack does not survive 30000 nested conses)."""
    vals = list(vals)
    if len(vals) <= chunk:
        return "[%s]" % "; ".join(vals)
    return "(" + " ++ ".join("[%s]" % "; ".join(vals[i:i + chunk]) for i in range(0, len(vals), chunk)) + ")"


def ops_to_coq(ops):
    parts, cur = [], []
    for o in ops:
        if len(cur) >= 1500:
            parts.append("[%s]" % "; ".join(cur))
            cur = []
        if "*" in o:
            if cur:
                parts.append("[%s]" % "; ".join(cur))
                cur = []
            base, n = o.split("*")
            parts.append("rp %d (%s)" % (int(n), op_to_coq(base)))
        else:
            cur.append(op_to_coq(o))
    if cur or not parts:
        parts.append("[%s]" % "; ".join(cur))
    return " ++ ".join(parts)


def case_to_coq(r):
    c = r["case"]
    return "c %d %s %d %d %d %d (%s) %s" % (c["id"], "true" if c["conn"] else "false", c["level"], c["N"], c["P"], c["T"],
                                            ops_to_coq(c["ops"]), zlist(zlit(v) for v in r["obs"]))


def run_harness(run, sub, tier, which=None, timeout=1800):
    args = [sub, tier] + ([which] if which else [])
    rc, out, err = vlib.harness(AREA, args, run.seed, timeout=timeout)
    recs = []
    for l in out.split("\n"):
        l = l.strip()
        if l.startswith("{"):
            try:
                recs.append(json.loads(l))
            except ValueError:
                pass
    return rc, recs, err


def _eval_shard(name, text):
    rc, out = vlib.coq_eval(name, text, timeout=1700)
    flat = " ".join(out.split())
    m = re.search(r"mism = \[([^\]]*)\]", flat)
    if rc != 0 or not m:
        return None, flat[-800:]
    ids = [int(x.strip().strip("()")) for x in m.group(1).split(";") if x.strip()]
    return ids, ""


def correspondence(prop, results, max_bytes=220000):
    """Evaluates the model on the histories of `results` (harness records of kind case) and returns
    (list of mismatching case ids | None when the evaluation itself failed, messages)."""
    shards, cur, size = [], [], 0
    for r in results:
        if r["case"].get("nomodel"):
            continue
        line = case_to_coq(r)
        if len(line) > 6000:            # a long history: its own shard, evaluated in parallel with the others
            shards.append([line])
            continue
        if cur and size + len(line) > max_bytes:
            shards.append(cur)
            cur, size = [], 0
        cur.append(line)
        size += len(line)
    if cur:
        shards.append(cur)
    texts = []
    for i, sh in enumerate(shards):
        body = "Definition cases : list hcase := [\n %s]." % ";\n ".join(sh)
        texts.append(("Cases_%s_%d" % (prop, i), CASE_HEADER + body + "\nDefinition mism := Eval vm_compute in mismatches cases.\nPrint mism.\n"))
    mism, msgs = [], []
    with ThreadPoolExecutor(max_workers=max(2, min(vlib.NCPU, 14))) as ex:
        for ids, msg in ex.map(lambda nt: _eval_shard(*nt), texts):
            if ids is None:
                msgs.append(msg)
            else:
                mism.extend(ids)
    if msgs:
        return None, msgs
    return sorted(mism), []


def model_obs(prop, r):
    """The model's observable for one harness record (used to show a mismatch)."""
    line = case_to_coq(r)
    text = CASE_HEADER + "Definition k := %s.\nDefinition o := Eval vm_compute in case_obs k.\nPrint o.\n" % line
    rc, out = vlib.coq_eval("Obs_%s" % prop, text, timeout=600)
    flat = " ".join(out.split())
    m = re.search(r"o = \[([^\]]*)\]", flat)
    if rc != 0 or not m:
        return None
    return [int(x.strip().strip("()")) for x in m.group(1).split(";") if x.strip()]


def replay_cmd(case):
    return "build/harness-inflight one '%s'" % json.dumps(case, separators=(",", ":"))


def nontrivial_key(r):
    """A history is non-trivial when at least one request was accepted AND something else happened to it
    (a delivery, a refusal, a close or a timeout); distinct = distinct (N, P, conn, op list)."""
    st = {k: v for k, v in r.get("stats", {}).items() if not k.startswith("timing-")}   # re-runs of a timing history are not outcomes
    if st.get("accepted", 0) == 0:
        return None
    if len(st) <= 2:    # only accepted + handles
        return None
    c = r["case"]
    return (c["N"], c["P"], c["conn"], c["T"] if c["unitMs"] else 0, tuple(c["ops"]))


def standard(run, prop, which, extra_subs=()):
    """Prelude + proofs + harness histories + correspondence + monitors. Returns (broken, findings, results)."""
    fails = vlib.standard_prelude(run, None, AREA)
    broken = []
    if "forbidden" in fails:
        broken.append("forbidden declarations in the development: %s" % fails["forbidden"])
    if "harness" in fails:
        broken.append("harness area inflight does not build against /repo (with -tags verif): " + fails["harness"].strip()[-800:])
    with vlib.Lock():
        pr = vlib.coq_prop(prop)
    run.add_proof(pr)
    if not pr["ok"]:
        broken.append("props/%s.v or a dependency no longer checks: %s %s" % (prop, pr["failed_at"], pr["errors"]))
    run.coverage["trusted_base"].extend(TRUSTED)
    if run.tier == "thorough" and pr["ok"]:
        with vlib.Lock():
            rc, out = vlib.coqchk(prop)
        run.coverage["coqchk"] = "ok" if rc == 0 else out[-400:]
        if rc != 0:
            broken.append("coqchk rejects props/%s.vo: %s" % (prop, out[-400:]))

    results, findings = [], []
    if "harness" not in fails:
        rc, recs, err = run_harness(run, "hist", run.tier, which)
        if rc != 0:
            broken.append("harness inflight hist failed rc=%s: %s" % (rc, err[-600:]))
        results = [r for r in recs if r.get("kind") == "case"]
        for r in recs:
            if r.get("kind") != "aborted":
                continue
            # the harness's watchdog gave up: after histories in which a call into the library never returned (each of them is a
            # `case` record with its own verdict) or at the deadline of the whole process (the running history is named here)
            broken.append("harness inflight hist stopped early (%s): %s" % (r.get("why"), r.get("what") or "%d histories not run" % r.get("skipped", 0)))
            if r.get("case"):
                findings.append({"kind": "stalled", "cls": "", "step": r.get("step"), "what": r.get("what", ""), "case": r["case"], "source": "watchdog"})
        for sub in extra_subs:
            rc, recs, err = run_harness(run, sub, run.tier)
            if rc != 0:
                broken.append("harness inflight %s failed rc=%s (a crash of the worker is a finding: see stderr): %s" % (sub, rc, err[-1200:]))
            for r in recs:
                if r.get("kind") == "observation":
                    # characterised, not judged: goes into the evidence notes, never into a verdict
                    run.note("observed, not judged (harness %s): %s: %s" % (sub, r.get("name"), r.get("observed")))
                if r.get("kind") == "pred":
                    run.coverage.setdefault("runtime_checks_exercised_not_proved", []).append(
                        {k: r[k] for k in ("name", "checked", "distinct") if k in r})
                    for f in r.get("failures") or []:
                        if f.get("kind", r["name"]) not in KINDS[prop]:
                            continue    # a verdict of another property (wire sessions speak for C09 and C10): that property's check reports it
                        findings.append({"kind": f.get("kind", r["name"]), "cls": f.get("cls", ""), "what": f.get("what", ""), "case": f.get("case"),
                                         "source": "harness " + sub})
    # monitors: the property's predicate evaluated on the implementation
    for r in results:
        for v in r.get("viol") or []:
            if v["kind"] not in KINDS[prop]:
                continue
            findings.append({"kind": v["kind"], "cls": v.get("cls", ""), "step": v["step"], "what": v["what"], "case": r["case"],
                             "source": "monitor"})
        if r.get("panic"):
            findings.append({"kind": "panic", "cls": "", "what": "panic: " + r["panic"], "case": r["case"], "source": "monitor"})
    # correspondence
    mism = None
    if results and os.path.exists(os.path.join(vlib.COQ, "model", "Inflight.vo")):
        mism, msgs = correspondence(prop, results)
        if mism is None:
            broken.append("correspondence file does not evaluate: " + " | ".join(msgs)[:800])
        elif mism:
            byid = {r["case"]["id"]: r for r in results}
            shown = []
            for i in mism[:3]:
                r = byid[i]
                shown.append({"case": r["case"], "implementation_obs": r["obs"], "model_obs": model_obs(prop, r), "replay": replay_cmd(r["case"])})
            broken.append({"correspondence": "model/Inflight.v and the compiled handler disagree on %d of %d histories" % (len(mism), len(results)),
                           "first": shown})
    elif results:
        broken.append("model/Inflight.vo is not built; correspondence not run")
    keys = set(k for k in (nontrivial_key(r) for r in results) if k is not None)
    groups = {}
    for r in results:
        groups[r["case"]["group"]] = groups.get(r["case"]["group"], 0) + 1
    stats = {}
    for r in results:
        for k, v in r.get("stats", {}).items():
            stats[k] = stats.get(k, 0) + v
    cov = run.coverage
    cov["evaluations"] = len(results)
    cov["distinct_nontrivial"] = len(keys)
    cov["traces_validated_against_impl"] = 0 if mism is None else len(results) - len(mism)
    cov["input_distribution"] = {"histories_per_group": groups, "outcomes": stats,
                                 "operations": sum(len(expand_ops(r["case"]["ops"])) for r in results)}
    cov["samples"] = [{"N": r["case"]["N"], "maxPending": r["case"]["P"], "conn": r["case"]["conn"], "ops": r["case"]["ops"][:40],
                       "obs": r["obs"][:60]} for r in pick_samples(results)]
    cov["exhaustive"] = False
    return broken, findings, results


def expand_ops(ops):
    res = []
    for o in ops:
        if "*" in o:
            b, n = o.split("*")
            res.extend([b] * int(n))
        else:
            res.append(o)
    return res


def pick_samples(results):
    seen, res = set(), []
    for r in results:
        g = r["case"]["group"]
        if g not in seen and r.get("stats", {}).get("accepted", 0) > 0 and len(r["case"]["ops"]) >= 3:
            seen.add(g)
            res.append(r)
    return res[:8]


def verdict(run, prop, broken, findings):
    known = vlib.known_findings(prop)
    findings = sorted(findings, key=lambda f: len(expand_ops(f["case"]["ops"])) if f.get("case") and f["case"].get("ops") else 0)
    reported = set()
    nviol = 0
    for f in findings:
        k = next((e for e in known if e.get("match") and all(f.get(a) == b for a, b in e["match"].items())), None)
        if k:
            what = k.get("what", f["what"])
            if what not in reported:
                reported.add(what)
                run.known(what)
        else:
            nviol += 1
            if nviol <= 3:
                rep = {"property": prop, "failing_input": f, "broken": broken}
                if f.get("case") and f["case"].get("ops"):
                    rep["how_to_replay"] = "cd /verif && " + replay_cmd(f["case"])
                elif str(f.get("source", "")).startswith("harness "):
                    # a scripted session (socket level): the sub-command runs all of them, the failing one is in failing_input.case
                    rep["how_to_replay"] = "cd /verif && build/harness-inflight %s %s" % (f["source"].split()[1], run.tier)
                run.violation(rep)
    if broken and not run.violations:
        run.violation({"property": prop, "broken": broken,
                       "note": "a proof obligation or the model/code correspondence no longer checks and the monitors found no failing input"},
                      no_input=True)
