"""Helpers shared by the checks of C06, C07 and C08 (harness area `seg`, models Crc.v / Segment.v / Lz4Wrap.v)."""
import concurrent.futures
import json
import os
import re

import vlib

UNITS = "crc"
AREA = "seg"
PAT = {"zero": 0, "rep": 1, "ramp": 2, "lcg": 3, "period": 4, "half": 5}

HEADER = ("From Coq Require Import ZArith NArith List Bool String.\n"
          "From GCNP Require Import base.GoInt gen.Crc_gen model.Crc model.Segment model.SegGen.\n"
          "Import ListNotations.\nOpen Scope Z_scope.\nOpen Scope string_scope.\n"
          "Set Printing Depth 1000000.\nSet Printing Width 1000000.\n")

MODEL_TARGETS = ["model/SegGen.vo", "model/Lz4Wrap.vo"]


def b(v):
    return "true" if v else "false"


def n(v):
    return "%d%%N" % int(v)


def z(v):
    v = int(v)
    return "(%d)" % v if v < 0 else str(v)


def hx(h):
    if len(h) <= 4000:
        return '(hx "%s")' % h
    # very long string literals overflow coqc's stack: cut into pieces
    return "(hxs [%s])" % "; ".join('"%s"' % h[i:i + 4000] for i in range(0, len(h), 4000))


def opt_hx(h):
    return "None" if h is None else "(Some %s)" % hx(h)


def prelude(run, broken):
    # vlib.forbidden_scan walks coq/ while concurrent checks create and delete coq/run/*.v: a file can vanish between
    # listing and opening.  Retry the prelude (it is idempotent); a persistent failure still propagates (fail closed).
    import time
    for attempt in range(8):
        try:
            fails = vlib.standard_prelude(run, UNITS, AREA)
            break
        except FileNotFoundError:
            if attempt == 7:
                raise
            time.sleep(1.5)
    if "forbidden" in fails:
        broken.append("forbidden declarations in the development: %s" % fails["forbidden"])
    if "go2coq" in fails:
        broken.append("translation of crc/*.go, segment/*.go constants failed: " + fails["go2coq"].strip()[-600:])
    if "harness" in fails:
        broken.append("harness seg does not build against /repo: " + fails["harness"].strip()[-600:])
    return fails


def run_harness(run, mode, broken, timeout=1800):
    rc, out, err = vlib.harness(AREA, [mode, run.tier], run.seed, timeout=timeout, mem_kb=12 * 1024 * 1024)
    if rc != 0:
        broken.append("harness seg %s failed rc=%s: %s" % (mode, rc, err[-400:]))
        return []
    return [json.loads(l) for l in out.split("\n") if l.strip()]


def dec_obs(d):
    return "(%s, %s, %s, %s, %s, %s, %s)" % (b(d["sc"]), z(d["ulen"]), z(d["clen"]), n(d["crc24"]), n(d["crc32"]), z(d["plen"]), z(d["rest"]))


def seg_case_term(r):
    """Gallina term (bool) comparing the model with one harness `seg` record; None when the record cannot be modelled."""
    if not r.get("enc_ok"):
        return None
    d = r["desc"]
    comp = r["comp"] == "lz4"
    cph = r.get("cmp_hex") if comp else None
    cplen = r.get("cmp_len", 0) if comp else 0
    hexp = d["pat"] == "hex"        # payload found by a search of the harness and given literally
    pay = hx(d["hex"]) if hexp else "%d %d %d" % (PAT[d["pat"]], d["len"], d["seed"])
    if r.get("dec", {}).get("class") == "err":
        # the implementation does not decode what it encoded.  When the third-party block is itself not an encoding of the
        # payload (known class lz4-offset-65536) the model's oracle cannot mimic it: not modellable.  Otherwise the model,
        # which has the size checks of decodeSegmentPayload and no others, must fail as well.
        if (r.get("diag") or {}).get("kind") == "lz4-block-corrupt-above-64KiB":
            return None
        return "negb (seg_decodes%s %s %s %s %s %s %s)" % ("_p" if hexp else "", b(comp), b(r["sc"]), pay, opt_hx(cph), z(cplen), hx(r["rest"]))
    if r.get("dec", {}).get("class") != "ok":
        return None
    if not r["dec"].get("payload_eq") and (r.get("diag") or {}).get("kind") == "lz4-block-corrupt-above-64KiB":
        return None     # wrong bytes because the third-party block is corrupt (known class): the model's oracle cannot mimic it
    post = r["post"]
    return "seg_case%s %s %s %s %s %s %d %s %s %s (%s, %s, %s) %s %s %s" % (
        "_p" if hexp else "", b(comp), b(r["sc"]), pay, opt_hx(cph), z(cplen), r["total"],
        hx(r["head"]), hx(r["trailer"]), opt_hx(r.get("full")), z(post["ulen"]), z(post["clen"]), n(post["crc32"]),
        hx(r["rest"]), dec_obs(r["dec"]), b(r["dec"].get("payload_eq")))


def raw_case_term(r):
    d = r["dec"]
    if d["class"] == "panic":
        return None
    exp = "None" if d["class"] == "err" else "(Some (%s, %s))" % (dec_obs(d), hx(d["payload"]))
    oi = r.get("oracle_in") if r.get("oracle_ok") else None
    oo = r.get("oracle_out") if r.get("oracle_ok") else None
    return "raw_case %s %s %s %s %s" % (b(r["comp"] == "lz4"), hx(r["hex"]), opt_hx(oi), opt_hx(oo), exp)


def judge_segment(r, findings, nontrivial):
    """The round-trip predicate of C06 (and of the segment part of C08) on one harness record of kind `seg` (descriptor
    payload, also run through the model) or `segx` (harness-only content class): EncodeSegment succeeds, DecodeSegment of
    the result succeeds and gives the payload, the flag and consistent lengths back; for `seg` also the independent layout."""
    k = r["kind"]
    ln = r["desc"]["len"] if k == "seg" else r.get("plen", r["len"])
    ident = {"payload": r.get("desc") or {"class": r["class"], "len": r["len"], "seed": r["seed"]}, "self_contained": r["sc"], "compressor": r["comp"]}
    if not r["enc_ok"]:
        findings.append(dict(ident, kind="encode-failed", what="EncodeSegment fails on a %d-byte payload (%s)" % (ln, r["comp"])))
        return
    d = r["dec"]
    if d["class"] != "ok":
        diag = r.get("diag") or {}
        extra = {"class": "lz4-offset-65536", "algorithm": "lz4", "diagnosis": diag} if diag.get("kind") == "lz4-block-corrupt-above-64KiB" else {}
        findings.append(dict(ident, kind="roundtrip-decode-" + d["class"], **extra, what="DecodeSegment(EncodeSegment(p)) is %s for a %d-byte payload (%s)" % (d["class"], ln, r["comp"])))
        return
    nontrivial.add((k, str(ident)))
    if not d["payload_eq"]:
        diag = r.get("diag", {})
        extra = {"class": "lz4-offset-65536", "algorithm": "lz4"} if diag.get("kind") == "lz4-block-corrupt-above-64KiB" else {}
        kind = diag.get("kind", "roundtrip-payload-differs")
        note = ""
        if diag.get("block_is_not_an_encoding_of_input") is False:
            # the independent LZ4 decoder reproduces the payload from the library's block: the codec around it is at fault
            kind = "roundtrip-payload-differs"
            note = "; the LZ4 block is a correct encoding of the payload, so the segment codec / wrapper returned the wrong bytes"
        findings.append(dict(ident, kind=kind, diagnosis=diag, compressed_len=r.get("cmp_len"), decoded=d, **extra,
                             what="segment round trip returns a different payload without error (%d bytes, %s); first difference at offset %s%s" % (ln, r["comp"], diag.get("first_diff"), note)))
        return
    exp_clen = 0
    if r["comp"] == "lz4" and k == "seg":
        exp_clen = r["cmp_len"] if r["cmp_len"] <= ln else 0
    bad = []
    if d["sc"] != r["sc"]:
        bad.append("flag")
    if d["ulen"] != ln or d["plen"] != ln:
        bad.append("uncompressed length")
    if k == "seg" and d["clen"] != exp_clen:
        bad.append("compressed length")
    if k == "seg" and d["rest"] * 2 != len(r["rest"]):
        bad.append("bytes after the segment")
    if bad:
        findings.append(dict(ident, kind="roundtrip-header-differs", fields=bad, decoded=d, what="decoded %s inconsistent with the encoded segment (%d bytes, %s)" % (", ".join(bad), ln, r["comp"])))
    if k == "seg" and not (r.get("ref_ok") and r.get("body_ok")):
        findings.append(dict(ident, kind="layout-differs-from-specification", emitted=r.get("full") or r.get("head"), reference=r.get("ref_hex"),
                             what="emitted bytes differ from the v5 framing layout computed independently (%d bytes, %s): header+crc24 %s trailer %s" % (ln, r["comp"], r.get("head"), r.get("trailer"))))


def eval_cases(name, terms, shards=4, weight=None):
    """terms: list of (id:int, gallina_bool_term). Evaluates `failing` in parallel coqc runs.
    Returns (ok, failing_ids, error_text)."""
    if not terms:
        return True, [], ""
    shards = max(1, min(shards, len(terms)))
    buckets = [[] for _ in range(shards)]
    loads = [0] * shards
    order = sorted(terms, key=lambda t: -(weight(t) if weight else 1))
    for t in order:
        i = loads.index(min(loads))
        buckets[i].append(t)
        loads[i] += weight(t) if weight else 1

    def one(i):
        body = ";\n  ".join("(%d, %s)" % (cid, term) for cid, term in buckets[i])
        text = HEADER + "Definition cases : list (Z * bool) := [\n  %s].\nDefinition mism := Eval vm_compute in failing cases.\nPrint mism.\n" % body
        return vlib.coq_eval("%s_%d" % (name, i), text, timeout=1500)

    failing, errs = [], []
    with concurrent.futures.ThreadPoolExecutor(max_workers=shards) as ex:
        for rc, out in ex.map(one, range(shards)):
            flat = " ".join(out.split())
            m = re.search(r"mism = \[(.*?)\]", flat)
            if rc != 0 or not m:
                errs.append(flat[-500:])
                continue
            failing += [int(x) for x in re.findall(r"-?\d+", m.group(1))]
    return not errs, sorted(failing), " | ".join(errs)


def finish(run, prop, findings, broken, replay_how):
    """Common verdict: findings = concrete failing inputs (dicts with a 'what'); broken = ties/proofs that no longer check."""
    known = vlib.known_findings(prop)
    said = set()
    per_kind = {}
    for f in findings:
        k = next((e for e in known if e.get("match") and all(f.get(a) == v for a, v in e["match"].items())), None)
        if k:
            w = k.get("what", f.get("what", ""))
            if w not in said:
                said.add(w)
                run.known(w)
        else:
            per_kind[f.get("kind")] = per_kind.get(f.get("kind"), 0) + 1
            if per_kind[f.get("kind")] <= 3:       # at most three replays per kind of failure; the rest are counted
                run.violation({"property": prop, "failing_input": f, "how_to_replay": replay_how, "broken": broken})
    if any(v > 3 for v in per_kind.values()):
        run.note("further failing inputs not written as replays: %s" % {k: v - 3 for k, v in per_kind.items() if v > 3})
    if broken and not run.violations:
        run.violation({"property": prop, "broken": broken,
                       "note": "a proof obligation, the translation or the model/code correspondence no longer checks and the search found no failing input"},
                      no_input=True)


# ---- C04 support: `harness-seg malformed <n> [thorough]` (entries segment, segment-lz4, lz4-raw, lz4-len, snappy-len)
def malformed_segment_terms(recs):
    """(id, Gallina bool term) for every segment / segment-lz4 record of the malformed run: the term is true iff the
    decoder model (coq/model/Segment.v) has the same outcome class (ok/err) and, when ok, the same decoded observables."""
    terms = []
    for r in recs:
        if r.get("entry") not in ("segment", "segment-lz4") or r.get("outcome") not in ("ok", "err"):
            continue
        t = raw_case_term(r)
        if t is not None:
            terms.append((int(r["id"]), t))
    return terms


def malformed_segment_mismatches(recs, name="Cases_C04_seg", shards=4):
    """Runs the decoder model on the segment inputs of a malformed run. Returns (ok, mismatching_ids, error_text).
    Requires model/SegGen.vo to be built (vlib.coq_make(["model/SegGen.vo"]) under vlib.Lock())."""
    return eval_cases(name, malformed_segment_terms(recs), shards=shards)
